#!/bin/sh
# seed_matrix.sh [name-prefix]: every seeded change against the quick check of its property
# (expects exit=1 each).  Works on a scratch worktree of /repo's HEAD (BT_VERIF_REPO), so
# it can run beside other work.
cd "$(dirname "$0")/.."
W=/tmp/matrix-repo-$$
git -C /repo worktree add -q --detach $W HEAD || exit 2
export BT_VERIF_REPO=$W
for d in seeded/${1:-}*/; do
  n=$(basename $d); p=${n%%-*}
  if ! git -C $W apply "$(pwd)/$d/patch.diff" 2>/dev/null; then echo "$n APPLY-FAILED"; continue; fi
  BT_VERIF_EVIDENCE_SUFFIX=.matrix ./check $p > /tmp/matrix_$$.out 2>&1; rc=$?
  git -C $W checkout -q -- .
  echo "$n exit=$rc viol=$(grep -c '^VIOLATION' /tmp/matrix_$$.out) $(grep -m1 -A1 '^VIOLATION' /tmp/matrix_$$.out | tail -1 | cut -c1-120)"
done
rm -f /tmp/matrix_$$.out evidence/*.matrix.json
git -C /repo worktree remove --force $W
