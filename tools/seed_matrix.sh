#!/bin/sh
# seed_matrix.sh: every seeded change against the quick check of its property (expects exit=1 each)
cd /verif
for d in seeded/*/; do
  n=$(basename $d); p=${n%%-*}
  r=$(sh tools/try_seed.sh /verif/$d $p 2>&1 | tail -1)
  echo "$n $r"
done
