#!/bin/sh
# try_seed.sh <seed dir> <property> [tier]: run a check against a seeded change applied to /repo, then undo it
D="$1"; P="$2"; T="${3:-quick}"
P_FILE="$D/patch.rebased.diff"; [ -f "$P_FILE" ] || P_FILE="$D/patch.diff"
cd /repo && git apply "$P_FILE" || { echo "APPLY FAILED"; exit 2; }
cd /verif && ./check "$P" --tier "$T" > /tmp/try_seed.$$.out 2>&1; rc=$?
cd /repo && git checkout -- . 
grep -E "VIOLATION|KNOWN-FINDING|MACHINERY" /tmp/try_seed.$$.out | head -8; echo "exit=$rc"; rm -f /tmp/try_seed.$$.out
cd /verif && git checkout -- evidence 2>/dev/null
