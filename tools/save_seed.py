#!/usr/bin/env python3
"""save_seed.py <name> <src dir> <property> <needs> <ran> <caught_by>"""
import json, os, shutil, sys
name, src, prop, needs, ran, caught = sys.argv[1:7]
d = os.path.join("/verif/seeded", name)
os.makedirs(d, exist_ok=True)
p = os.path.join(src, "patch.rebased.diff")
if not os.path.exists(p) or os.path.getsize(p) == 0:
    p = os.path.join(src, "patch.diff")
shutil.copy(p, os.path.join(d, "patch.diff"))
shutil.copy(os.path.join(src, "demo.py"), os.path.join(d, "demo.py"))
if os.path.exists(os.path.join(src, "notes.md")):
    shutil.copy(os.path.join(src, "notes.md"), os.path.join(d, "notes.md"))
json.dump({"property": prop, "needs_to_manifest": needs, "confirmed_by": ran, "caught_by": caught,
           "origin": "written by an independent sub-agent that saw only the property text"}, open(os.path.join(d, "meta.json"), "w"), indent=1)
print("saved", d)
