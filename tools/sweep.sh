#!/bin/sh
# sweep.sh <tier> <seed>...: run every registered check for the given seeds, one line per run.
# The sweep works on its own scratch worktree of /repo's HEAD (BT_VERIF_REPO), so that
# seeded changes tried in /repo at the same time do not leak into it.
T="$1"; shift
cd "$(dirname "$0")/.."
W=/tmp/sweep-repo-$$
git -C /repo worktree add -q --detach $W HEAD || exit 2
export BT_VERIF_REPO=$W
for s in "$@"; do
  for p in C01 C02 C03 C04 C05 C06 C07 C08 C09 C10 C11 C12 C13 C14 C15 C16 C17 C18 C19 C20; do
    st=$(date +%s)
    VERIF_SEED=$s ./check $p --tier $T > /tmp/sweep_${p}_$s.txt 2>&1; rc=$?
    echo "seed=$s $p rc=$rc $(( $(date +%s) - st ))s viol=$(grep -c '^VIOLATION' /tmp/sweep_${p}_$s.txt) known=$(grep -c '^KNOWN-FINDING' /tmp/sweep_${p}_$s.txt) $(grep -A1 '^VIOLATION' /tmp/sweep_${p}_$s.txt | grep -v '^VIOLATION' | head -2 | tr '\n' '|')"
    if [ $rc -ne 0 ]; then mkdir -p sweep_fail; cp /tmp/sweep_${p}_$s.txt sweep_fail/${p}_$s.txt; cp evidence/replay/${p}_1.json sweep_fail/${p}_${s}_replay.json 2>/dev/null; fi
    rm -f /tmp/sweep_${p}_$s.txt
  done
done
git -C /repo worktree remove --force $W
