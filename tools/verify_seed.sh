#!/bin/sh
# verify_seed.sh <dir with patch.diff and demo.py> : confirm a seeded change
# in a scratch worktree: demo PASS on clean, patch applies, demo FAIL, tests pass.
D="$1"; W=/tmp/vs-$$
git -C /repo worktree add -q --detach $W HEAD || exit 2
cd $W
echo "== clean demo"; /venv/bin/python $D/demo.py > $W.clean.out 2>&1; echo "rc=$?"; tail -2 $W.clean.out
echo "== apply"; git apply --3way $D/patch.diff 2>&1 | tail -2 || { echo APPLY-FAILED; }
git diff --stat | tail -1
echo "== patched demo"; /venv/bin/python $D/demo.py > $W.bug.out 2>&1; echo "rc=$?"; tail -3 $W.bug.out
echo "== tests"; /venv/bin/python -m pytest -q -p no:cacheprovider tests 2>&1 | tail -2
git diff HEAD > $D/patch.rebased.diff
cd /; git -C /repo worktree remove --force $W; rm -f $W.clean.out $W.bug.out
