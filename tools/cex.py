#!/venv/bin/python
"""cex.py <tlc output> [fields...]: print a TLC counterexample compactly
(im.* / st.* fields given as e.g. im.stale im.val st.sval)."""
import re
import sys

sys.path.insert(0, "/verif/harness")
from tlcrun import parse_tla  # noqa: E402


def rat(v):
    if isinstance(v, (list, tuple)) and len(v) == 2 and all(isinstance(x, int) for x in v):
        n, d = v
        if d == 0:
            return "NaN" if n == 1 else "OVF"
        return str(n) if d == 1 else "%d/%d" % (n, d)
    if isinstance(v, (list, tuple)):
        return "[" + " ".join(rat(x) for x in v) + "]"
    if isinstance(v, dict):
        return "{" + ", ".join("%s: %s" % (k, rat(x)) for k, x in v.items()) + "}"
    return str(v)


def main():
    t = open(sys.argv[1]).read()
    fields = sys.argv[2:]
    chunks = re.split(r"\nState (\d+): ", t)
    for i in range(1, len(chunks), 2):
        body = chunks[i + 1]
        body = body.split("\n\n")[0] if "\n\n" in body else body
        head, _, rest = body.partition("\n")
        vars_ = {}
        for m in re.finditer(r"/\\ (\w+) = (.*?)(?=\n/\\ |\Z)", rest, re.S):
            try:
                vars_[m.group(1)] = parse_tla(m.group(2))
            except Exception as e:  # noqa: BLE001
                vars_[m.group(1)] = "?" + str(e)[:40]
        lo = vars_.get("lastop", {})
        print("== %s %s %s" % (chunks[i], lo.get("op") if isinstance(lo, dict) else lo, {k: rat(v) for k, v in lo.items() if k != "op"} if isinstance(lo, dict) else ""))
        for f in fields:
            var, _, fld = f.partition(".")
            v = vars_.get(var)
            for part in fld.split(".") if fld else []:
                v = v.get(part) if isinstance(v, dict) else None
            print("     %-10s %s" % (f, rat(v)))


main()
