--------------------------- MODULE MC_BtSizing ---------------------------
(***************************************************************************)
(* Design check for C05: the transcription ShippedQ of the pinned sizing   *)
(* search is evaluated on a whole grid of (price, multiplier, position,    *)
(* spread, commission model, amount).  Wherever it disagrees with the      *)
(* property AllocSecChk the point must belong to one of the listed         *)
(* known-finding classes K1a..K1e - and MaxQ (the quantity the model-      *)
(* checking configurations use) must satisfy the property everywhere.      *)
(***************************************************************************)
EXTENDS BtSizing

CONSTANTS Prices, Mults, Positions, Spreads, Comms, AmtLo, AmtHi

PosDef == {0, 4, -4}
PosDefBig == {0, 4, -4, 25, -25}
LoQuick == -60
LoBig == -400

VARIABLE pt
vars == <<pt>>

CommOf(k) ==
  CASE k = "zero" -> [k |-> "zero", a |-> Zero, b |-> Zero]
    [] k = "fix"  -> [k |-> "fix",  a |-> R(1), b |-> Zero]
    [] k = "unit" -> [k |-> "unit", a |-> Rat(1, 4), b |-> Zero]
    [] k = "tier" -> [k |-> "tier", a |-> R(2), b |-> Rat(1, 4)]
    [] k = "sell" -> [k |-> "sell", a |-> Rat(1, 100), b |-> Zero]
    [] k = "buy"  -> [k |-> "buy",  a |-> Rat(1, 100), b |-> Zero]
    [] OTHER      -> [k |-> "prop", a |-> Rat(1, 100), b |-> Zero]

Cfg(p) ==
  [N |-> 2, kind |-> <<"strat", "sec">>, par |-> <<1, 1>>, kids |-> <<<<2>>, <<>>>>,
   mult |-> <<One, R(p.m)>>, fi |-> <<FALSE, FALSE>>, T |-> 1,
   px |-> <<<<>>, <<R(p.price)>>>>, spread |-> <<<<>>, <<R(p.spread)>>>>,
   coupon |-> <<<<>>, <<Zero>>>>, costl |-> <<<<>>, <<Zero>>>>, costs |-> <<<<>>, <<Zero>>>>,
   comm |-> <<CommOf(p.comm), CommOf("zero")>>,
   integer |-> TRUE, bidoffer |-> TRUE, D |-> 100000, DW |-> 200000, paper |-> FALSE]

St(p) == [InitState(Cfg(p)) EXCEPT !.t = 1, !.pos = <<Zero, R(p.pos)>>, !.cash = <<R(100000), Zero>>]

Grid == [price : Prices, m : Mults, pos : Positions, spread : Spreads, comm : Comms, a : AmtLo..AmtHi]
\* C05's domain: costs per unit stay below the unit price
InDomain(p) == 4 * p.spread <= p.price * p.m

Init == pt \in {p \in Grid : InDomain(p)}
Next == UNCHANGED pt
Spec == Init /\ [][Next]_vars

PointOK(p) ==
  LET C  == Cfg(p)
      s  == St(p)
      sh == ShippedQ(C, s, 2, R(p.a))
  IN  \/ sh.exc = "ovf"
      \/ sh.exc = "none" /\ AllocSecChk(C, s, 2, R(p.a), sh.q, FALSE) \in {"ok", "skip"}
      \/ KF_C05(C, s, 2, R(p.a), sh.q, sh.exc # "none") # "none"

Inv_ShippedInClasses == PointOK(pt)
\* enumeration aid: print every point outside the classes instead of stopping
Inv_ListBad ==
  PointOK(pt) \/ PrintT(<<"BAD", pt, ShippedQ(Cfg(pt), St(pt), 2, R(pt.a))>>)

\* the quantity used by the model-checking configurations is the property's own
Inv_MaxQOk ==
  LET C == Cfg(pt) s == St(pt)
  IN  AllocSecChk(C, s, 2, R(pt.a), MaxQ(C, s, 2, R(pt.a)), FALSE) \in {"ok", "skip"}
=============================================================================
