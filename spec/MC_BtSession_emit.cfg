SPECIFICATION Spec
CONSTANTS
  K = 2
  MaxReruns = 1
INVARIANT Inv_TemplateUntouched
INVARIANT Inv_ResultIsSolo
INVARIANT Inv_EmitSchedules
PROPERTY Act_Isolation
CHECK_DEADLOCK FALSE
