-------------------------- MODULE Trace_BtSession --------------------------
EXTENDS BtSession, Json, IOUtils, TLCExt

Doc    == JsonDeserialize(IOEnv.TRACE_FILE)
Traces == Doc.traces

VARIABLES tid, l, prevres, prevruns, done
vars == <<tid, l, prevres, prevruns, done>>

Init == /\ tid \in 1..Len(Traces) /\ l = 1 /\ done = FALSE
        /\ prevres = [b \in 1..Traces[tid].k |-> 0]
        /\ prevruns = [b \in 1..Traces[tid].k |-> 0]

Next ==
  /\ ~done
  /\ LET tr == Traces[tid]
     IN  IF l > Len(tr.events)
         THEN \* the whole session repeated under another interpreter hash seed
              \* gives the same results
              LET hb == {<<"C11.hashseed", b>> : b \in {b \in 1..tr.k : tr.otherseed[b] # 0 /\ tr.otherseed[b] # tr.solo[b]}}
              IN  /\ PrintT(<<"V", tr.tid, IF hb = {} THEN "OK" ELSE "FAIL", l - 1, hb, "none">>)
                  /\ done' = TRUE /\ UNCHANGED <<tid, l, prevres, prevruns>>
         ELSE LET e == tr.events[l]
                  bad == EventOK(e, tr.fpT0, tr.fpD0, tr.solo, prevres, prevruns)
              IN  IF bad # {}
                  THEN /\ PrintT(<<"V", tr.tid, "FAIL", l, bad, "none">>)
                       /\ done' = TRUE /\ UNCHANGED <<tid, l, prevres, prevruns>>
                  ELSE /\ prevres' = [prevres EXCEPT ![e.b] = e.res]
                       /\ prevruns' = [prevruns EXCEPT ![e.b] = e.runs]
                       /\ l' = l + 1 /\ UNCHANGED <<tid, done>>
Spec == Init /\ [][Next]_vars
=============================================================================
