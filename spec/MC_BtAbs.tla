---------------------------- MODULE MC_BtAbs ----------------------------
(***************************************************************************)
(* Exhaustive design check of the abstract ledger: every sequence of       *)
(* public operations within small constants, every property as an          *)
(* invariant or action property.  Which (a constant) picks the tree / cost *)
(* model; MaxOps bounds operations per date.                               *)
(***************************************************************************)
EXTENDS BtAbs

CONSTANTS Which, MaxOps, MaxT, Slice

VARIABLES st, ops, last, lastop

vars == <<st, ops, last, lastop>>
\* lastop (the operation with its arguments, for replay into the code) is an
\* observation variable: the exhaustive configurations hide it with this VIEW
View == <<st, ops, last>>

Px3(a, b, c) == <<R(a), R(b), R(c)>>
NoTab == <<>>
Z3 == <<Zero, Zero, Zero>>
CommOf(k) ==
  CASE k = "zero" -> [k |-> "zero", a |-> Zero, b |-> Zero]
    [] k = "fix"  -> [k |-> "fix",  a |-> R(1), b |-> Zero]
    [] k = "unit" -> [k |-> "unit", a |-> R(1), b |-> Zero]
    [] k = "tier" -> [k |-> "tier", a |-> R(2), b |-> R(1)]
    [] OTHER      -> [k |-> "prop", a |-> Rat(1, 10), b |-> Zero]

\* F2: root{a, b}; price paths include a rise, a fall and a collapse (bankruptcy)
CfgF2(ck, spr, mb) ==
  [N |-> 3, kind |-> <<"strat", "sec", "sec">>, par |-> <<1, 1, 1>>,
   kids |-> <<<<2, 3>>, <<>>, <<>>>>, mult |-> <<One, One, R(mb)>>,
   fi |-> <<FALSE, FALSE, FALSE>>, T |-> 3,
   px |-> <<NoTab, Px3(10, 12, 2), Px3(5, 5, 6)>>,
   spread |-> <<NoTab, Px3(spr, spr, spr), Px3(0, spr, 0)>>,
   coupon |-> <<NoTab, Z3, Z3>>, costl |-> <<NoTab, Z3, Z3>>, costs |-> <<NoTab, Z3, Z3>>,
   comm |-> <<CommOf(ck), CommOf("zero"), CommOf("zero")>>,
   integer |-> TRUE, bidoffer |-> TRUE, D |-> 100000, DW |-> 200000, paper |-> FALSE]

\* N1: root{kid{a, b}, c}
CfgN1(ck, spr) ==
  [N |-> 5, kind |-> <<"strat", "strat", "sec", "sec", "sec">>, par |-> <<1, 1, 2, 2, 1>>,
   kids |-> <<<<2, 5>>, <<3, 4>>, <<>>, <<>>, <<>>>>, mult |-> <<One, One, One, R(2), One>>,
   fi |-> <<FALSE, FALSE, FALSE, FALSE, FALSE>>, T |-> 3,
   px |-> <<NoTab, NoTab, Px3(10, 12, 8), Px3(5, 5, 6), Px3(20, 10, 40)>>,
   spread |-> <<NoTab, NoTab, Px3(spr, spr, spr), Z3, Px3(0, spr, 0)>>,
   coupon |-> <<NoTab, NoTab, Z3, Z3, Z3>>, costl |-> <<NoTab, NoTab, Z3, Z3, Z3>>,
   costs |-> <<NoTab, NoTab, Z3, Z3, Z3>>,
   comm |-> <<CommOf(ck), CommOf(ck), CommOf("zero"), CommOf("zero"), CommOf("zero")>>,
   integer |-> TRUE, bidoffer |-> TRUE, D |-> 100000, DW |-> 200000, paper |-> FALSE]

\* FI: fixed-income root {coupon-paying a, fixed-income b, hedge h}
CfgFI(ck) ==
  [N |-> 4, kind |-> <<"strat", "cpsec", "fisec", "hedge">>, par |-> <<1, 1, 1, 1>>,
   kids |-> <<<<2, 3, 4>>, <<>>, <<>>, <<>>>>, mult |-> <<One, One, One, One>>,
   fi |-> <<TRUE, TRUE, FALSE, FALSE>>, T |-> 3,
   px |-> <<NoTab, Px3(100, 98, 101), Px3(100, 100, 95), Px3(50, 52, 49)>>,
   spread |-> <<NoTab, Z3, Z3, Z3>>,
   coupon |-> <<NoTab, <<Rat(1, 2), Zero, R(1)>>, Z3, Z3>>,
   costl |-> <<NoTab, <<Rat(1, 10), Rat(1, 10), Zero>>, <<NaN, NaN, NaN>>, <<NaN, NaN, NaN>>>>,
   costs |-> <<NoTab, <<Rat(1, 5), Zero, Rat(1, 5)>>, <<NaN, NaN, NaN>>, <<NaN, NaN, NaN>>>>,
   comm |-> <<CommOf(ck), CommOf("zero"), CommOf("zero"), CommOf("zero")>>,
   integer |-> TRUE, bidoffer |-> FALSE, D |-> 100000, DW |-> 200000, paper |-> FALSE]

C == CASE Which = "FIzero"  -> CfgFI("zero")
       [] Which = "FIfix"   -> CfgFI("fix")
       [] Which = "F2zero"  -> CfgF2("zero", 0, 1)
       [] Which = "F2fix"   -> CfgF2("fix", 2, 2)
       [] Which = "F2tier"  -> CfgF2("tier", 2, 1)
       [] Which = "F2unit"  -> CfgF2("unit", 0, 2)
       [] Which = "N1zero"  -> CfgN1("zero", 0)
       [] Which = "N1fix"   -> CfgN1("fix", 2)
       [] OTHER             -> CfgF2("zero", 0, 1)


OpRec(op, node, child, a, b, flow, upd, date) ==
  [op |-> op, node |-> node, child |-> child, a |-> a, b |-> b, flow |-> flow, upd |-> upd, date |-> date]
\* the configuration is printed once so that replay drivers can build the same tree
ASSUME PrintT(<<"CFG", C>>)
Init == st = InitState(C) /\ ops = 0 /\ last = "init" /\ lastop = OpRec("init", 1, 1, Zero, Zero, TRUE, TRUE, 0)

Amounts == IF Slice = 1 THEN {R(250), R(-60)} ELSE IF Slice = 3 THEN {R(250)} ELSE {R(55), R(-130), R(400)}
Weights == IF Slice = 1 THEN {Rat(1, 2), Rat(1, 4)} ELSE IF Slice = 3 THEN {Rat(1, 2)}
           ELSE {Rat(-1, 2), One, Rat(3, 2)}

Step(r, name, rec) == st' = r.st /\ ops' = ops + 1 /\ last' = name /\ lastop' = rec

DoAdjust ==
  \E a \in {R(1000), R(-100)}, f \in BOOLEAN, u \in BOOLEAN :
     /\ st.t > 0 \/ (f /\ u)
     /\ Step(AdjustOp(C, R0(st), Root, a, f, Zero, u), "adjust", OpRec("adjust", Root, 1, a, Zero, f, u, 0))
DoRefresh == st.t > 0 /\ Step(UpdateOp(C, R0(st), st.t), "refresh", OpRec("update", Root, 1, Zero, Zero, TRUE, TRUE, st.t))
DoAdvance ==
  /\ st.fresh /\ st.t < MaxT
  /\ ~OpenOnMissing(C, st, st.t + 1)
  /\ st' = UpdateOp(C, R0(st), st.t + 1).st /\ ops' = 0 /\ last' = "advance"
  /\ lastop' = OpRec("update", Root, 1, Zero, Zero, TRUE, TRUE, st.t + 1)
Tradable(x) == st.t > 0 /\ ~PriceUnusable(C, st, x)
SubTradable(n) == \A x \in Nodes(C) : (IsSec(C, x) /\ InSubtree(C, x, n)) => Tradable(x)
DoAllocate ==
  \E n \in Nodes(C) \ {Root}, a \in Amounts, u \in BOOLEAN :
     /\ SubTradable(n)
     /\ Step(AllocateOp(C, R0(st), n, a, u), "allocate", OpRec("allocate", n, 1, a, Zero, TRUE, u, 0))
DoRebalance ==
  \E s \in Strats(C), w \in Weights, u \in BOOLEAN : \E c \in {k \in Nodes(C) \ {Root} : C.par[k] = s} :
     /\ SubTradable(c)
     /\ Step(RebalanceOp(C, R0(st), s, w, c, NaN, u), "rebalance", OpRec("rebalance", s, c, w, NaN, TRUE, u, 0))
DoClose ==
  \E s \in Strats(C), u \in BOOLEAN : \E c \in {k \in Nodes(C) \ {Root} : C.par[k] = s} :
     /\ SubTradable(c)
     /\ Step(CloseOp(C, R0(st), s, c, u), "close", OpRec("close", s, c, Zero, Zero, TRUE, u, 0))
DoFlatten ==
  \E s \in Strats(C) : SubTradable(s) /\ st.fresh /\ Step(FlattenOp(C, R0(st), s), "flatten", OpRec("flatten", s, 1, Zero, Zero, TRUE, TRUE, 0))

DoTransact ==
  \E x \in Secs(C), q \in {R(10), R(-4)}, u \in BOOLEAN :
     /\ C.fi[Root] /\ Tradable(x)
     /\ Step(TransactOp(C, R0(st), x, q, NaN, u), "transact", OpRec("transact", x, 1, q, NaN, TRUE, u, 0))
Trade == IF C.fi[Root] THEN DoTransact \/ DoRebalance \/ DoClose \/ DoFlatten
         ELSE DoAllocate \/ DoRebalance \/ DoClose \/ DoFlatten
Next ==
  \/ ops < MaxOps /\ ~st.bankrupt /\ (DoAdjust \/ (st.t > 0 /\ Trade))
  \/ ops < MaxOps /\ DoRefresh
  \/ DoAdvance

Spec == Init /\ [][Next]_vars

------------------------------------------------------------------------------
\* nothing left the representable range (otherwise the bounds are too generous)
NoOverflow == \A n \in Nodes(C) : ~IsOvf(st.cash[n]) /\ ~IsOvf(st.pos[n]) /\ ~IsOvf(st.sval[n])

Inv_C01_Snapshot   == C01_Snapshot(C, st)
Inv_C01_WeightsSum == C01_WeightsSum(C, st)

\* C07: every strategy's cash change since the previous close reconciles
Inv_C07_Ledger ==
  \A s \in Strats(C) : RSub(st.cash[s], st.pcash[s]) = LedgerRHS(C, st, s)

\* C02: root value change since the previous close is fully attributed
Inv_C02_Conservation ==
  (st.t > 0 /\ ~Bad(Val(C, st, Root))) => RSub(Val(C, st, Root), st.pval[Root]) = PnlRHS(C, st)

\* C02 (per operation): on an unchanged date value moves only by flows,
\* explicit non-flow adjustments, fees and bid/offer
CostsToday(s) == RAdd(SumAll(s.fee, StratSeq(C)), SumAll(s.bop, SecSeq(C)))
Act_C02_TradesValueNeutral ==
  [][(st'.t = st.t /\ st.t > 0) =>
       RSub(Val(C, st', Root), Val(C, st, Root)) =
         RSub(RAdd(RSub(st'.flow[Root], st.flow[Root]),
                   RSub(SumAll(st'.nonflow, StratSeq(C)), SumAll(st.nonflow, StratSeq(C)))),
              RSub(CostsToday(st'), CostsToday(st)))]_vars

\* C03: the index moves by value / (previous value + net flows): a flow enters
\* numerator and denominator alike, so on a date without performance so far
\* (value = return base) it cannot move the index, whatever its size and sign;
\* with performance r = V/B it moves the ratio to (V+a)/(B+a), never by a/B.
Act_C03_FlowNeutral ==
  [][(last' = "adjust" /\ st.t > 0 /\ st'.t = st.t /\ st'.nonflow = st.nonflow
        /\ ~st.bankrupt /\ ~st'.bankrupt
        /\ ~IsZero(RetBase(st, Root)) /\ ~IsZero(RetBase(st', Root)))
       => /\ (Val(C, st, Root) = RetBase(st, Root) => IdxRatio(C, st', Root) = One)
          /\ RSub(Val(C, st', Root), RetBase(st', Root))
               = RSub(Val(C, st, Root), RetBase(st, Root))]_vars

\* C16: flagged exactly when a market-value root is worth less than zero at a
\* refresh; liquidated; terminal
Inv_C16_FlagIff     == st.fresh => ~WouldBankrupt(C, st)
Inv_C16_Liquidated  == (st.bankrupt /\ st.fresh) => \A x \in Secs(C) : IsZero(st.pos[x])
Act_C16_Terminal    ==
  [][st.bankrupt => (st'.bankrupt /\ st'.pos = st.pos /\ st'.cash = st.cash)]_vars
\* never flagged while value stayed non-negative: the flag is only set by RefreshR
Act_C16_OnlyWhenNegative ==
  [][(~st.bankrupt /\ st'.bankrupt) => RSign(Val(C, st', Root)) \in {-1, 0, 1}]_vars

\* C17: notional per node kind; the strategy's notional is the sum of absolute
\* child notionals; accruals are what the end-of-day position earns
Inv_C17_Notional ==
  (C.fi[Root] /\ st.fresh /\ st.t > 0) =>
     /\ st.snotl[Root] = RSumSeq([i \in 1..Len(C.kids[Root]) |-> RAbs(st.snotl[C.kids[Root][i]])])
     /\ \A x \in Secs(C) :
           /\ C.kind[x] \in {"cpsec", "fisec"} => st.snotl[x] = st.pos[x]
           /\ C.kind[x] \in {"hedge", "cphedge"} => st.snotl[x] = Zero
           /\ C.kind[x] = "sec" => st.snotl[x] = st.sval[x]
           /\ IsCpn(C, x) => st.accr[x] = RSub(st.cpn[x], st.hc[x])
     /\ ~st.bankrupt

\* C08: a same-date update of a fresh state changes nothing
Act_C08_RefreshIdempotent ==
  [][(last' = "refresh" /\ st.fresh) => st' = st]_vars
=============================================================================
