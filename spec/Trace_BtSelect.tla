--------------------------- MODULE Trace_BtSelect ---------------------------
EXTENDS BtSelect, Json, IOUtils, TLCExt

Doc    == JsonDeserialize(IOEnv.TRACE_FILE)
Traces == Doc.traces

VARIABLES tid, done
vars == <<tid, done>>
Init == tid \in 1..Len(Traces) /\ done = FALSE

\* K10: the lagged window holds no row of the data: ffn's total return indexes
\* an empty frame (IndexError)
EmptyWindow(tr) ==
  /\ tr.algo \in {"StatTotalReturn", "SelectMomentum"}
  /\ ~StatDeclines(tr, tr.p.lag)
  /\ WindowRows(tr, tr.p.lookback, tr.p.lag) = {}

Next ==
  /\ ~done
  /\ LET tr == Traces[tid]
     IN  IF tr.exc # "none"
         THEN PrintT(<<"V", tr.tid, IF EmptyWindow(tr) THEN "KNOWN" ELSE "FAIL", 1, {<<"C14.raised", 0>>},
                      IF EmptyWindow(tr) THEN "K10" ELSE "none">>)
         ELSE IF EmptyWindow(tr)
         THEN PrintT(<<"V", tr.tid, "FAIL", 1, {<<"C14.emptywindow", 0>>}, "none">>)
         ELSE LET bad == Judge(tr)
              IN  PrintT(<<"V", tr.tid, IF bad = {} THEN "OK" ELSE "FAIL", 1, bad, "none">>)
  /\ done' = TRUE /\ UNCHANGED tid
Spec == Init /\ [][Next]_vars
=============================================================================
