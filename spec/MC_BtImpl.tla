---------------------------- MODULE MC_BtImpl ----------------------------
(***************************************************************************)
(* Refinement check: the implementation-shaped model BtImpl and the        *)
(* abstract ledger BtAbs take every sequence of public operations of       *)
(* MC_BtAbs in lock step (plus reads, which only the implementation        *)
(* notices); in every reachable state what the implementation would hand   *)
(* to a reader is the ledger (Inv_Refines), an update on a settled tree    *)
(* changes nothing observable, and recorded history never changes.         *)
(*                                                                         *)
(* Discipline (the domain in which bt's lazy machinery is specified):      *)
(*  - a deferred (update=False) batch starts on a settled tree and is      *)
(*    touches each security at most once and is                            *)
(*    closed by an explicit update on the same date (an update=True call   *)
(*    that happens to trade nothing marks nothing stale, and a read inside *)
(*    the batch returns the cached snapshot);                              *)
(*  - Guarded = TRUE: the date moves only on a settled tree.  With         *)
(*    Guarded = FALSE TLC finds the known finding F10 as a counterexample  *)
(*    of Inv_Refines (pending changes are lost for the closing row).       *)
(***************************************************************************)
EXTENDS BtImpl

CONSTANTS Which, MaxOps, MaxT, Slice, Guarded

VARIABLES st, ops, last, lastop, im

A == INSTANCE MC_BtAbs
C == A!C
vars == <<st, ops, last, lastop, im>>
View == <<st, ops, last, im>>

ImplStep(i, o) ==
  CASE o.op = "adjust"    -> ImplAdjust(i, o.node, o.a, o.upd, o.flow, o.b)
    [] o.op = "update"    -> ImplUpdate(C, i, o.date)
    [] o.op = "allocate"  -> NodeAlloc(C, i, o.node, o.a, o.upd)
    [] o.op = "rebalance" -> ImplRebalance(C, i, o.node, o.a, o.child, o.b, o.upd)
    [] o.op = "close"     -> ImplClose(C, i, o.node, o.child, o.upd)
    [] o.op = "flatten"   -> ImplFlatten(C, i, o.node)
    [] o.op = "transact"  -> SecTransact(C, i, o.node, o.a, o.upd, TRUE, o.b)
    [] OTHER              -> i

Init == A!Init /\ im = ImplInit(C)

Deferred(o) == ~o.upd /\ o.op \notin {"update", "flatten"}
\* the node an operation works on
Target(o) == IF o.op \in {"rebalance", "close"} THEN o.child ELSE o.node
InDomain(o) ==
  /\ Deferred(o) => (~im.stale \/ ~st.fresh)
  \* ... touches every security at most once (a second visit re-values the
  \* security from its new position while the rest of the snapshot stays) ...
  /\ Deferred(o) => \A x \in Secs(C) : InSubtree(C, x, Target(o)) => im.lpos[x] = im.pos[x]
  \* ... and is closed by an explicit update (as Rebalance and the engine do)
  /\ ~st.fresh => (Deferred(o) \/ (o.op = "update" /\ o.date = st.t))
  /\ (Guarded /\ o.op = "update" /\ o.date # st.t) => ~im.stale

\* a sub-strategy worth exactly zero that holds offsetting cash and positions is
\* skipped by the shipped flatten / close (known finding K5, first found by TLC
\* on BtAbs): such states are outside the refinement domain
NoK5(s) == \A n \in Strats(C) \ {Root} :
              ~(IsZero(Val(C, s, n)) /\ \E x \in Secs(C) : InSubtree(C, x, n) /\ ~IsZero(s.pos[x]))

\* SecurityBase.transact on a market-value tree: round trips within a date
DoTransactMV ==
  \E x \in Secs(C), q \in {R(10), R(-10)}, u \in BOOLEAN, custom \in BOOLEAN :
     /\ ops < MaxOps /\ ~st.bankrupt /\ st.t > 0 /\ ~C.fi[Root] /\ ~PriceUnusable(C, st, x)
     /\ custom => C.bidoffer
     /\ LET cp == IF custom THEN RAdd(Px(C, x, st.t), R(2)) ELSE NaN   \* a bespoke price two ticks off mid
        IN  /\ st' = TransactOp(C, R0(st), x, q, cp, u).st
            /\ lastop' = A!OpRec("transact", x, 1, q, cp, TRUE, u, 0)
     /\ ops' = ops + 1 /\ last' = "transact"

\* `sec.allocate(0)`: nothing for the ledger, a lazy security update underneath
DoTouch ==
  \E x \in Secs(C), u \in BOOLEAN :
     /\ ops < MaxOps /\ ~st.bankrupt /\ st.t > 0 /\ ~C.fi[Root] /\ ~PriceUnusable(C, st, x)
     /\ st' = AllocateOp(C, R0(st), x, Zero, u).st /\ ops' = ops + 1 /\ last' = "touch"
     /\ lastop' = A!OpRec("allocate", x, 1, Zero, Zero, TRUE, u, 0)

Next ==
  \/ /\ (A!Next \/ DoTransactMV \/ DoTouch)
     /\ InDomain(lastop')
     /\ NoK5(st')
     /\ \A n \in Nodes(C) : ~IsOvf(st'.cash[n]) /\ ~IsOvf(st'.pos[n]) /\ ~IsOvf(st'.sval[n])
     /\ im' = ImplStep(im, lastop')
     /\ ~ImplPoisoned(C, im')      \* (32-bit rationals: such states are not explored)
  \/ \* a property read: invisible to the ledger, a lazy update in the implementation
     /\ im.stale /\ st.fresh /\ st.t > 0
     /\ im' = ImplRead(C, im)
     /\ UNCHANGED <<st, ops>> /\ last' = "read"
     /\ lastop' = A!OpRec("read", Root, 1, Zero, Zero, TRUE, TRUE, 0)

Spec == Init /\ [][Next]_vars

------------------------------------------------------------------------------
NoOverflowI == ~ImplPoisoned(C, im)

Inv_Refines == Refines(C, im, st)

\* C08: an explicit update on the current date, or a read, changes nothing observable
Act_C08_UpdateIdempotent ==
  [][(last' \in {"refresh", "read"} /\ st.fresh) => Observable(C, im') = Observable(C, im)]_vars

\* C08: rows of earlier dates never change; the closing row of a date is final
\* once the date moves on a settled tree
Act_C08_HistoryFrozen ==
  [][/\ \A k \in RowKinds, n \in Nodes(C), t \in 1..C.T :
          t < Row(im.now[Root]) => im'.rows[k][n][t] = im.rows[k][n][t]
     /\ (im'.now[Root] # im.now[Root] /\ im.now[Root] > 0 /\ ~im.stale) =>
          \A k \in RowKinds, n \in Nodes(C) : im'.rows[k][n][im.now[Root]] = im.rows[k][n][im.now[Root]]
    ]_vars

\* nothing is ever written beyond the current date
Inv_C08_NothingBeyondNow ==
  \A k \in RowKinds, n \in Nodes(C), t \in 1..C.T :
     t > Row(im.now[Root]) => im.rows[k][n][t] = Zero

\* the flags: a settled tree has no pending outlay, every traded security is
\* still being updated, a retired security is flat and weightless
Inv_Flags ==
  /\ (~im.stale /\ st.fresh) => \A x \in Secs(C) : im.out[x] = Zero
  /\ \A x \in Secs(C) : ~im.need[x] => (IsZero(im.pos[x]) /\ IsZero(im.wgt[x]) /\ IsZero(im.val[x]))
=============================================================================
