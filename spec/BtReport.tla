------------------------------ MODULE BtReport ------------------------------
(***************************************************************************)
(* C18: everything a finished backtest reports is a function of the node   *)
(* histories.  A case tr carries, for every date d and node n of the tree, *)
(* the recorded rows H (value, notl, pos, outlay, bop, price) and the      *)
(* report tables as the Backtest produced them; TLC recomputes each report *)
(* from H and compares (relative tolerance 1e-6 on decoded rationals; a    *)
(* comparison that does not fit 32-bit rationals is skipped).              *)
(*   tr.N nodes, node 1 = root; tr.kind[n] in {"strat","sec"}; tr.name[n]  *)
(*   = ticker id of a security (same id = same ticker in several           *)
(*   sub-strategies), 0 for strategies; tr.fi = fixed-income root          *)
(***************************************************************************)
EXTENDS BtNum

Tol6 == Rat(1, 1000000)
Floor9 == Rat(1, 100000)
NearV(a, b) ==   \* "ok" / "fail" / "skip"
  IF IsInx(a) /\ ~Bad(b) THEN
     \* a reported value off the decoding lattice is known to 1e-4: undecidable when
     \* that close to the exact value, a failure when grossly off
     LET e4 == RMul(b, R(10000))
     IN  IF Bad(e4) THEN "skip"
         ELSE IF Abs(RFloor(e4) - a[1]) <= 2 + Abs(a[1]) \div 2000 THEN "skip" ELSE "fail"
  ELSE IF IsOvf(b) \/ IsInx(b) \/ IsOvf(a) \/ IsInx(a) THEN "skip"
  ELSE IF IsNaN(a) /\ IsNaN(b) THEN "ok"
  ELSE IF IsNaN(a) \/ IsNaN(b) THEN "fail"
  ELSE IF Bad(a) \/ Bad(b) THEN "skip"
  ELSE LET d == RAbs(RSub(a, b))
           m == RMax(RMax(RAbs(a), RAbs(b)), Floor9)
           c == Cmp(d, RMul(Tol6, m))
       IN  IF c = 2 THEN "skip" ELSE IF c \in {-1, 0} THEN "ok" ELSE "fail"

Dates(tr) == 1..tr.T
Nodes(tr) == 1..tr.N
Secs(tr)  == {n \in Nodes(tr) : tr.kind[n] = "sec"}
Tickers(tr) == {tr.name[n] : n \in Secs(tr)}
NodeSeq(tr, P(_)) == SelectSeq([i \in 1..tr.N |-> i], P)

\* the quantity weights are fractions of: value, or notional for a fixed-income root
Base(tr, d, n) == IF tr.fi THEN tr.H.notl[d][n] ELSE tr.H.value[d][n]
\* a quotient over a zero base is not defined (inf or NaN in the report): not judged
SafeDiv(a, b) == IF Bad(a) \/ Bad(b) THEN BadOf(a, b) ELSE IF IsZero(b) THEN OVF ELSE RDiv(a, b)

CompWeight(tr, d, n) == SafeDiv(Base(tr, d, n), Base(tr, d, 1))
SumTicker(tr, f, d, k) ==
  LET S == NodeSeq(tr, LAMBDA n : tr.kind[n] = "sec" /\ tr.name[n] = k)
  IN  RSumSeq([i \in 1..Len(S) |-> f[d][S[i]]])
SecWeight(tr, d, k) == SafeDiv(SumTicker(tr, IF tr.fi THEN tr.H.notl ELSE tr.H.value, d, k), Base(tr, d, 1))
Position(tr, d, k) == SumTicker(tr, tr.H.pos, d, k)
HHI(tr, d) ==
  LET ks == SelectSeq([i \in 1..tr.NT |-> i], LAMBDA k : k \in Tickers(tr))
  IN  RSumSeq([i \in 1..Len(ks) |-> LET w == SecWeight(tr, d, ks[i]) IN IF IsNaN(w) THEN Zero ELSE RMul(w, w)])   \* (OVF / INX propagate)
\* the index in units of 1e-4 from weights rounded to 1e-4 (-1: not computable): what
\* is left to compare when the exact sum of squares leaves 32-bit rationals or the
\* reported value is off the decoding lattice
HHI4(tr, d) ==
  LET ks == SelectSeq([i \in 1..tr.NT |-> i], LAMBDA k : k \in Tickers(tr))
      w4(k) == LET w == SecWeight(tr, d, k)
               IN  IF IsNaN(w) THEN 0 ELSE IF Bad(w) \/ ~MulOK(w[1], 10000) THEN 100000 ELSE RFloor(RMul(w, R(10000)))
      RECURSIVE Sum(_)
      Sum(i) == IF i > Len(ks) THEN 0
                ELSE LET x == w4(ks[i]) r == Sum(i + 1)
                     IN  IF r < 0 \/ Abs(x) > 30000 THEN -1 ELSE r + (x * x) \div 10000
  IN  Sum(1)
ChkHHI(tr, d) ==
  LET obs == tr.R.hhi[d]
      v   == NearV(obs, HHI(tr, d))
      h4  == HHI4(tr, d)
      o4  == IF IsInx(obs) THEN obs[1]
             ELSE IF Bad(obs) \/ ~MulOK(obs[1], 10000) THEN -1 ELSE RFloor(RMul(obs, R(10000)))
  IN  IF v # "skip" THEN v
      ELSE IF h4 < 0 \/ o4 < 0 THEN "skip"
      ELSE IF Abs(o4 - h4) <= 8 + h4 \div 400 THEN "skip" ELSE "fail"   \* grossly off

Turnover(tr, d) ==
  LET ks  == SelectSeq([i \in 1..tr.NT |-> i], LAMBDA k : k \in Tickers(tr))
      o(k) == SumTicker(tr, tr.H.outlay, d, k)
      pos == RSumSeq([i \in 1..Len(ks) |-> IF RSign(o(ks[i])) = 1 THEN o(ks[i]) ELSE Zero])
      neg == RSumSeq([i \in 1..Len(ks) |-> IF RSign(o(ks[i])) = -1 THEN RNeg(o(ks[i])) ELSE Zero])
  IN  IF \E i \in 1..Len(ks) : Bad(o(ks[i])) THEN OVF      \* an outlay off the decoding lattice: not judged
      ELSE SafeDiv(RMin(pos, neg), tr.H.value[d][1])
\* transactions: quantity = change of the aggregated position, price = execution price
TradeQty(tr, d, k) == IF d = 1 THEN Position(tr, d, k) ELSE RSub(Position(tr, d, k), Position(tr, d - 1, k))
TradePx(tr, d, k) ==
  LET q == TradeQty(tr, d, k)
      n == CHOOSE m \in Secs(tr) : tr.name[m] = k
  IN  IF ~tr.bidoffer THEN tr.H.price[d][n]
      ELSE RAdd(tr.H.price[d][n], SafeDiv(SumTicker(tr, tr.H.bop, d, k), q))

Judge(tr) ==
  LET chk(name, d, k, v) == IF v = "fail" THEN {<<name, d, k>>} ELSE {}
  IN  UNION {
        UNION {chk("C18.weights", d, n, NearV(tr.R.weights[d][n], CompWeight(tr, d, n))) : n \in Nodes(tr)}
        \cup UNION {chk("C18.security_weights", d, k, NearV(tr.R.sweights[d][k], SecWeight(tr, d, k))) : k \in Tickers(tr)}
        \cup UNION {chk("C18.positions", d, k, NearV(tr.R.positions[d][k], Position(tr, d, k))) : k \in Tickers(tr)}
        \cup chk("C18.herfindahl", d, 0, ChkHHI(tr, d))
        \* (on a tree that never created a security the turnover report is NaN and
        \* the transaction report raises: known finding F4, reported by the harness)
        \cup (IF tr.NT = 0 THEN {} ELSE chk("C18.turnover", d, 0, NearV(tr.R.turnover[d], Turnover(tr, d))))
        \cup chk("C18.result_price", d, 0, NearV(tr.R.rprice[d], tr.H.sprice[d]))
        : d \in Dates(tr)}
      \* the transaction list: exactly the dates/tickers whose aggregated position moved
      \cup UNION {
           UNION { LET q == TradeQty(tr, d, k)
                       listed == \E i \in 1..Len(tr.R.tx) : tr.R.tx[i].d = d /\ tr.R.tx[i].k = k
                   IN  IF Bad(q) THEN {}
                       ELSE IF IsZero(q)
                       THEN \* (a listed quantity that decodes to zero is floating-point residue)
                            (IF listed /\ \E i \in 1..Len(tr.R.tx) : tr.R.tx[i].d = d /\ tr.R.tx[i].k = k
                                              /\ ~Bad(tr.R.tx[i].q) /\ ~IsZero(tr.R.tx[i].q)
                             THEN {<<"C18.tx.spurious", d, k>>} ELSE {})
                       ELSE IF ~listed THEN {<<"C18.tx.missing", d, k>>}
                       ELSE LET e == tr.R.tx[CHOOSE i \in 1..Len(tr.R.tx) : tr.R.tx[i].d = d /\ tr.R.tx[i].k = k]
                            IN  chk("C18.tx.quantity", d, k, NearV(e.q, q))
                                \* (for a ticker held by several securities the bid/offer paid is
                                \* aggregated like the quantity: F9, fixed)
                                \cup chk("C18.tx.price", d, k,
                                         NearV(e.p, TradePx(tr, d, k)))
                 : k \in Tickers(tr)} : d \in Dates(tr)}
      \* security weights and every strategy's cash fraction sum to one
      \cup UNION {
           LET ks == SelectSeq([i \in 1..tr.NT |-> i], LAMBDA k : k \in Tickers(tr))
               sw == RSumSeq([i \in 1..Len(ks) |-> LET w == tr.R.sweights[d][ks[i]] IN IF IsNaN(w) THEN Zero ELSE w])
               ss == NodeSeq(tr, LAMBDA n : tr.kind[n] = "strat")
               cf == RSumSeq([i \in 1..Len(ss) |-> SafeDiv(tr.H.cash[d][ss[i]], tr.H.value[d][1])])
           IN  IF tr.fi \/ Bad(tr.H.value[d][1]) \/ IsZero(tr.H.value[d][1]) \/ Bad(cf) THEN {}
               ELSE chk("C18.sum_to_one", d, 0, NearV(RAdd(sw, cf), One))
           : d \in Dates(tr)}
=============================================================================
