--------------------------- MODULE Trace_BtReport ---------------------------
EXTENDS BtReport, Json, IOUtils, TLCExt
Doc    == JsonDeserialize(IOEnv.TRACE_FILE)
Traces == Doc.traces
VARIABLES tid, done
vars == <<tid, done>>
Init == tid \in 1..Len(Traces) /\ done = FALSE
Next ==
  /\ ~done
  /\ LET tr == Traces[tid]
         bad == Judge(tr)
         short == {<<b[1], b[2]>> : b \in bad}
         known == \A b \in bad : b[1] = "F9.tx.price"
     IN  PrintT(<<"V", tr.tid, IF bad = {} THEN "OK" ELSE IF known THEN "KNOWN" ELSE "FAIL", 1, short,
                  IF bad # {} /\ known THEN "F9" ELSE "none">>)
  /\ done' = TRUE /\ UNCHANGED tid
Spec == Init /\ [][Next]_vars
=============================================================================
