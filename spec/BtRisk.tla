------------------------------- MODULE BtRisk -------------------------------
(***************************************************************************)
(* C20: risk aggregation, hedging, closing and rolling matured positions.  *)
(* A case tr has a tree (N nodes, kind[n], par[n], kids[n], mult[n]),      *)
(* measures 1..M, unit-risk tables ur[m][d][n] (NaN = the table has no     *)
(* column for that security: counts as zero) and, per date d, what the     *)
(* run recorded after the stack ran: pos[d][n], risk[d][n][m] (NaN when    *)
(* the node carries no risk attribute), hist[d][n][m] (the node's risk     *)
(* history row, NaN when none is kept), closed[d] / rolled[d] (perm sets), *)
(* selected[d].                                                            *)
(***************************************************************************)
EXTENDS BtNum

Tol == Rat(1, 1000000)
Near0(a, scale) == Bad(a) \/ Cmp(RAbs(a), RMul(Tol, RMax(scale, One))) \in {-1, 0, 2}
NearE(a, b) == Bad(a) \/ Bad(b) \/ Cmp(RAbs(RSub(a, b)), RMul(Tol, RMax(RMax(RAbs(a), RAbs(b)), One))) \in {-1, 0, 2}
SetOf(s) == {s[i] : i \in DOMAIN s}

IsSec(tr, n) == tr.kind[n] = "sec"
Unit(tr, m, d, n) == LET u == tr.ur[m][d][n] IN IF IsNaN(u) THEN Zero ELSE u
RECURSIVE RiskOf(_, _, _, _)
RiskOf(tr, d, n, m) ==
  IF IsSec(tr, n)
  THEN IF IsZero(tr.pos[d][n]) THEN Zero ELSE RMul(RMul(Unit(tr, m, d, n), tr.pos[d][n]), tr.mult[n])
  ELSE RSumSeq([i \in 1..Len(tr.kids[n]) |-> RiskOf(tr, d, tr.kids[n][i], m)])
RECURSIVE Depth(_, _)
Depth(tr, n) == IF n = 1 THEN 0 ELSE 1 + Depth(tr, tr.par[n])

\* after UpdateRisk ran on date d: every node's risk, and the history of shallow nodes
Aggregation(tr) ==
  UNION { UNION { UNION {
      (IF NearE(tr.risk[d][n][m], RiskOf(tr, d, n, m)) /\ ~IsNaN(tr.risk[d][n][m]) THEN {} ELSE {<<"C20.risk", d, n>>})
      \cup (IF Depth(tr, n) < tr.history
            THEN (IF NearE(tr.hist[d][n][m], RiskOf(tr, d, n, m)) /\ ~IsNaN(tr.hist[d][n][m]) THEN {}
                  \* K15: the history row of a security is written under the security's own
                  \* clock, which lags the root's for a security its parent skips (flat, untraded)
                  \* (flat today and yesterday: its parent did not update it on this date)
                  ELSE IF IsSec(tr, n) /\ IsZero(tr.pos[d][n]) /\ (d = 1 \/ IsZero(tr.pos[d - 1][n]))
                       THEN {<<"K15.history", d, n>>}
                  ELSE {<<"C20.history", d, n>>})
            ELSE (IF IsNaN(tr.hist[d][n][m]) THEN {} ELSE {<<"C20.history_depth", d, n>>}))
      : m \in 1..tr.M } : n \in {n \in 1..tr.N : tr.live[d][n]} } : d \in {d \in 1..tr.T : tr.ran[d]} }

\* after HedgeRisks followed by UpdateRisk: with as many independent instruments as
\* measures every hedged measure of the strategy is zero; with the pseudo-inverse the
\* residual is least-squares minimal: J' (J n + r) = 0, i.e. J' resid = 0
Hedge(tr) ==
  UNION { IF ~tr.hedged[d] THEN {} ELSE
      IF tr.square
      THEN UNION {IF Near0(tr.risk[d][1][m], tr.scale) THEN {} ELSE {<<"C20.hedge", d, m>>} : m \in 1..tr.M}
      ELSE \* normal equations: for every instrument s, sum_m J[s][m] * resid[m] = 0
           UNION {IF Near0(RSumSeq([m \in 1..tr.M |-> RMul(RMul(Unit(tr, m, d, tr.inst[s]), tr.mult[tr.inst[s]]), tr.risk[d][1][m])]), tr.scale)
                  THEN {} ELSE {<<"C20.hedge_lsq", d, s>>} : s \in 1..Len(tr.inst)}
    : d \in 1..tr.T }

\* closing and rolling: cd[n] = date index from which n must be closed (0: never)
CloseRoll(tr) ==
  UNION { UNION {
      \* once the algo has run on or after the close date: flat, remembered, not re-selected
      (IF tr.cd[n] # 0 /\ d >= tr.cd[n] /\ tr.ran[d]
       THEN (IF IsZero(tr.pos[d][n]) THEN {} ELSE {<<"C20.closed_position", d, n>>})
            \cup (IF n \in SetOf(tr.closed[d]) THEN {} ELSE {<<"C20.perm_closed", d, n>>})
            \cup (IF n \notin SetOf(tr.selected[d]) THEN {} ELSE {<<"C20.reselected", d, n>>})
       ELSE {})
      \* roll: on the first run date at or after rd[n] the security is remembered as rolled
      \cup (IF tr.rd[n] # 0 /\ d >= tr.rd[n] /\ tr.ran[d]
            THEN (IF n \in SetOf(tr.rolled[d]) THEN {} ELSE {<<"C20.perm_rolled", d, n>>})
            ELSE {})
      : n \in {n \in 1..tr.N : IsSec(tr, n)} } : d \in 1..tr.T }
  \* positions under rolling, chains included (A rolls into B, B into X): a security rolls
  \* out what it held before the call - its own trades plus what was rolled into it on
  \* earlier dates; what is rolled into it in the same call or later stays in it
  \cup UNION { UNION {
      IF ~tr.ran[d] \/ ~IsSec(tr, n) \/ tr.cd[n] # 0 THEN {} ELSE
      LET Rolls(k) == IsSec(tr, k) /\ tr.rd[k] # 0 /\ tr.rolledat[k] # 0
          RECURSIVE Before(_)
          Before(k) == RAdd(tr.posbefore[k],
                            RSumSeq([j \in 1..tr.N |->
                               IF Rolls(j) /\ tr.rt[j] = k /\ tr.rolledat[j] < tr.rolledat[k]
                               THEN RMul(tr.rf[j], Before(j)) ELSE Zero]))
          gone   == Rolls(n) /\ tr.rolledat[n] <= d
          inflow == RSumSeq([k \in 1..tr.N |->
                      IF Rolls(k) /\ tr.rt[k] = n /\ tr.rolledat[k] <= d /\ (~gone \/ tr.rolledat[k] >= tr.rolledat[n])
                      THEN RMul(tr.rf[k], Before(k)) ELSE Zero])
          expect == RAdd(IF gone THEN Zero ELSE tr.own[d][n], inflow)
      IN  IF NearE(tr.pos[d][n], expect) THEN {}
          ELSE {<<IF Rolls(n) /\ tr.rolledat[n] <= d THEN "C20.rolled_position" ELSE "C20.roll_target", d, n>>}
      : n \in 1..tr.N } : d \in 1..tr.T }

Judge(tr) ==
  CASE tr.what = "agg" -> Aggregation(tr)
    [] tr.what = "hedge" -> Hedge(tr)
    [] tr.what = "closeroll" -> CloseRoll(tr)
    [] OTHER -> {<<"C20.unknown", 0, 0>>}
=============================================================================
