---------------------------- MODULE MC_BtSched ----------------------------
(***************************************************************************)
(* Design check for C12: (i) the integer calendar of BtNum round-trips and *)
(* orders periods correctly over a range of days; (ii) the counting        *)
(* schedulers, stepped through every call sequence with repeated calls on  *)
(* a date, fire exactly on the dates their parameters describe.            *)
(***************************************************************************)
EXTENDS BtSched

CONSTANTS MaxN, MaxCalls, DayLo, DayHi

VARIABLES kind, p, cs, calls, fired, dates
vars == <<kind, p, cs, calls, fired, dates>>

Init ==
  /\ kind \in {"RunOnce", "RunAfterDays", "RunEveryNPeriods"}
  \* (the offset may exceed the period: the first firing is then later than one period)
  /\ p \in [n : 1..MaxN, offset : 0..(2 * MaxN + 1), days : 0..MaxN]
  /\ cs = InitCount(kind, p)
  /\ calls = 0 /\ fired = <<>> /\ dates = <<>>

\* each call is on the current date again (repeat) or on the next date
Call(newdate) ==
  /\ calls < MaxCalls
  /\ (newdate \/ dates # <<>>)
  /\ LET d  == IF newdate THEN Len(dates) + 1 ELSE Len(dates)
         r  == StepCount(kind, p, cs, <<d, 0>>)
     IN  /\ cs' = r.st
         /\ dates' = IF newdate THEN Append(dates, d) ELSE dates
         /\ fired' = Append(fired, <<d, r.fire>>)
  /\ calls' = calls + 1
  /\ UNCHANGED <<kind, p>>
Next == Call(TRUE) \/ Call(FALSE)
Spec == Init /\ [][Next]_vars

FiredOn(d) == \E i \in 1..Len(fired) : fired[i] = <<d, TRUE>>
NumFired(d) == Cardinality({i \in 1..Len(fired) : fired[i] = <<d, TRUE>>})
CallNo(i) == i

\* RunEveryNPeriods: at most once per distinct date, and on date k iff
\* k = offset + 1 + j*n
Inv_EveryN ==
  kind = "RunEveryNPeriods" =>
    \A d \in 1..Len(dates) :
       /\ NumFired(d) <= 1
       /\ FiredOn(d) <=> (d > p.offset /\ (d - p.offset - 1) % p.n = 0)
\* RunOnce: exactly the first call
Inv_Once == kind = "RunOnce" => \A i \in 1..Len(fired) : fired[i][2] <=> (i = 1)
\* RunAfterDays: False for the first `days` calls, True afterwards
Inv_AfterDays == kind = "RunAfterDays" => \A i \in 1..Len(fired) : fired[i][2] <=> (i > p.days)

\* calendar: civil <-> day number round trip, weekday, ISO week facts
Inv_Calendar ==
  \A z \in DayLo..DayHi :
    LET c == CivilFromDays(z)
    IN  /\ DaysFromCivil(c.y, c.m, c.d) = z
        /\ c.m \in 1..12 /\ c.d \in 1..31
        /\ IsoWeek(z) \in 1..53
        /\ IsoWeekday(z + 1) = (IsoWeekday(z) % 7) + 1
        /\ (IsoWeekday(z) < 7 => (IsoWeek(z + 1) = IsoWeek(z) /\ IsoYear(z + 1) = IsoYear(z)))
        /\ (IsoWeekday(z) = 7 => (IsoWeek(z + 1) # IsoWeek(z) \/ IsoYear(z + 1) # IsoYear(z)))
        /\ IsoYear(z) \in {c.y - 1, c.y, c.y + 1}
=============================================================================
