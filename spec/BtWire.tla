------------------------------- MODULE BtWire -------------------------------
(***************************************************************************)
(* C19: tree wiring.  A construction program is flattened by the harness   *)
(* into the list of nodes it declares: decl[i] = [path (full name the      *)
(* program implies), name, par (index of the parent declaration, 0 for the *)
(* root), kind ("strat" / "sec"), how ("list" / "dict" / "string" /        *)
(* "parent" / "nested")].  The observation obs[j] = [path, name, parpath,  *)
(* rootname, kind, intpos, comm] lists every member of the real tree after *)
(* construction (lazy children made real by a first use).                  *)
(***************************************************************************)
EXTENDS Integers, Sequences, FiniteSets, TLC

Paths(s) == {s[i].path : i \in DOMAIN s}
ByPath(s, p) == s[CHOOSE i \in DOMAIN s : s[i].path = p]
ParPath(tr, i) == IF tr.decl[i].par = 0 THEN tr.decl[i].path ELSE tr.decl[tr.decl[i].par].path
Join(p, n) == p \o ">" \o n

Structure(tr) ==
  LET d == tr.decl  o == tr.obs
      real == {d[i].path : i \in {j \in DOMAIN d : d[j].how # "ghost"}}   \* ghosts: named, never tradable
  IN
  \* exactly the declared nodes, each once
  (IF Paths(o) = real /\ Len(o) = Cardinality(Paths(o)) THEN {} ELSE {<<"C19.members", 0>>})
  \* full name, parent, root, kind of every declared node
  \cup UNION {
      IF d[i].path \notin Paths(o) THEN {} ELSE
      LET x == ByPath(o, d[i].path) IN
        (IF x.name = d[i].name THEN {} ELSE {<<"C19.name", i>>})
        \cup (IF x.parpath = ParPath(tr, i) THEN {} ELSE {<<"C19.parent", i>>})
        \cup (IF x.rootname = d[1].name THEN {} ELSE {<<"C19.root", i>>})
        \cup (IF x.kind = d[i].kind THEN {} ELSE {<<"C19.kind", i>>})
        \cup (IF d[i].par = 0 \/ x.path = Join(ParPath(tr, i), d[i].name) THEN {} ELSE {<<"C19.full_name", i>>})
      : i \in DOMAIN d}
  \* sibling names unique
  \cup (IF \A i, j \in DOMAIN d : (i # j /\ d[i].par = d[j].par) => d[i].name # d[j].name THEN {} ELSE {<<"C19.siblings", 0>>})

\* universe of strategy i: declared tickers that are data columns (all columns if it
\* declared no child at all) plus one column per sub-strategy
Kids(tr, i) == {j \in DOMAIN tr.decl : tr.decl[j].par = i}
ExpectedUniverse(tr, i) ==
  LET ks  == Kids(tr, i)
      tks == {tr.decl[j].name : j \in {j \in ks : tr.decl[j].kind = "sec"}}
      sts == {tr.decl[j].name : j \in {j \in ks : tr.decl[j].kind = "strat"}}
      cols == {tr.cols[c] : c \in DOMAIN tr.cols}
      \* children handed to the constructor decide the scoping; strategies attached
      \* later with parent= only add their own column (a strategy that was given no
      \* child at construction keeps every ticker)
      ctor == {j \in ks : tr.decl[j].how \notin {"parent", "late"}}
  IN  IF ctor = {} THEN cols \cup sts ELSE (tks \cap cols) \cup sts
Universe(tr) ==
  UNION { IF tr.decl[i].kind # "strat" \/ tr.decl[i].path \notin Paths(tr.obs) THEN {}
          ELSE LET x == ByPath(tr.obs, tr.decl[i].path)
               IN  IF {x.universe[c] : c \in DOMAIN x.universe} = ExpectedUniverse(tr, i) THEN {} ELSE {<<"C19.universe", i>>}
        : i \in DOMAIN tr.decl }

\* settings pushed from some node reach every descendant, also those created later:
\* the value at node i is that of the last push on i or an ancestor (default TRUE)
RECURSIVE IsAncOrSelf(_, _, _)
IsAncOrSelf(tr, a, i) == a = i \/ (tr.decl[i].par # 0 /\ IsAncOrSelf(tr, a, tr.decl[i].par))
LastPush(tr, i, pushes, dflt) ==
  LET S == {k \in DOMAIN pushes : IsAncOrSelf(tr, pushes[k].node, i)}
  IN  IF S = {} THEN dflt ELSE pushes[CHOOSE k \in S : \A m \in S : k >= m].value
\* the same, counting only the pushes made after the first n (those a strategy created
\* on the live tree was around for)
LastPushFrom(tr, i, pushes, dflt, n) ==
  LET S == {k \in DOMAIN pushes : k > n /\ IsAncOrSelf(tr, pushes[k].node, i)}
  IN  IF S = {} THEN dflt ELSE pushes[CHOOSE k \in S : \A m \in S : k >= m].value
RECURSIVE UnderLate(_, _)
UnderLate(tr, i) == tr.decl[i].how = "late" \/ (tr.decl[i].par # 0 /\ UnderLate(tr, tr.decl[i].par))
Settings(tr) ==
  UNION { IF tr.decl[i].path \notin Paths(tr.obs) THEN {} ELSE
          LET x == ByPath(tr.obs, tr.decl[i].path) IN
            (IF x.intpos = LastPush(tr, i, tr.intpushes, TRUE) THEN {} ELSE {<<"C19.integer_positions", i>>})
            \cup (IF tr.decl[i].kind # "strat" \/ x.comm = LastPush(tr, i, tr.commpushes, 0) THEN {}
                  \* known finding K16: a strategy attached to a live tree takes the integer-position
                  \* setting of its parent but not the commission function set earlier
                  ELSE IF UnderLate(tr, i) /\ x.comm = LastPushFrom(tr, i, tr.commpushes, 0, tr.npre_comm)
                  THEN {<<"C19.commissions.K16", i>>}
                  ELSE {<<"C19.commissions", i>>})
        : i \in DOMAIN tr.decl }

Judge(tr) ==
  IF tr.expect_error THEN (IF tr.raised THEN {} ELSE {<<"C19.duplicate_accepted", 0>>})
  ELSE IF tr.raised THEN {<<"C19.raised", 0>>}
  ELSE Structure(tr) \cup Universe(tr) \cup Settings(tr)
=============================================================================
