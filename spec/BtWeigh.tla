------------------------------ MODULE BtWeigh ------------------------------
(***************************************************************************)
(* C15: what each weighting algo leaves in temp['weights'].                *)
(* A case tr: K tickers; tr.pre.w = prior temp['weights'] as a sequence of *)
(* <<ticker, weight>> (absent: tr.pre.hasw = FALSE); tr.sel = selection;   *)
(* tr.cur[x] = live weight of child x (0 if not a child), tr.child[x];     *)
(* price table tr.P[r][x] with day numbers tr.day[r], current row tr.now;  *)
(* tr.out.w = resulting weights, tr.out.ret.  Weights are rationals; the   *)
(* risk-based relations are evaluated on exact rational statistics of the  *)
(* window and compared with a relative tolerance (the algorithms take      *)
(* square roots).                                                          *)
(***************************************************************************)
EXTENDS BtNum

SetOf(s) == {s[i] : i \in DOMAIN s}
Keys(w) == {w[i][1] : i \in DOMAIN w}
NoDupKeys(w) == \A i, j \in DOMAIN w : i # j => w[i][1] # w[j][1]
Get(w, k) == LET S == {i \in DOMAIN w : w[i][1] = k} IN IF S = {} THEN NaN ELSE w[CHOOSE i \in S : TRUE][2]
GetOr0(w, k) == IF Get(w, k) = NaN THEN Zero ELSE Get(w, k)
SumW(w) == RSumSeq([i \in 1..Len(w) |-> w[i][2]])
B(name, ok) == IF ok THEN {} ELSE {<<name, 0>>}

\* |a - b| <= tol * max(|a|, |b|, floor)  - three valued: TRUE when undecidable
Near(a, b, tol, floor) ==
  LET d == RAbs(RSub(a, b))
      m == RMax(RMax(RAbs(a), RAbs(b)), floor)
      c == Cmp(d, RMul(tol, m))
  IN  c \in {-1, 0, 2}
Tol3 == Rat(1, 1000)
Floor6 == Rat(1, 1000000)

(***************************************************************************)
(* window statistics of simple returns (exact rationals)                   *)
(***************************************************************************)
RowsIn(tr, lo, hi) == {r \in 1..tr.now : tr.day[r] >= lo /\ tr.day[r] <= hi}
RECURSIVE SortedSeq(_)
SortedSeq(S) == IF S = {} THEN <<>>
                ELSE LET m == CHOOSE a \in S : \A b \in S : a <= b IN <<m>> \o SortedSeq(S \ {m})
WinRows(tr, lookback, lag) == SortedSeq(RowsIn(tr, tr.day[tr.now] - lag - lookback, tr.day[tr.now] - lag))
\* returns of ticker x over consecutive window rows (the first window row has none)
Ret(tr, W, i, x) == RSub(RDiv(tr.P[W[i + 1]][x], tr.P[W[i]][x]), One)
NRet(W) == Len(W) - 1
Mean(tr, W, x) == RDiv(RSumSeq([i \in 1..NRet(W) |-> Ret(tr, W, i, x)]), R(NRet(W)))
Cov(tr, W, x, y) ==
  RDiv(RSumSeq([i \in 1..NRet(W) |-> RMul(RSub(Ret(tr, W, i, x), Mean(tr, W, x)),
                                        RSub(Ret(tr, W, i, y), Mean(tr, W, y)))]),
       R(NRet(W) - 1))
\* quadratic form v' Sigma v over the tickers of seq ks, v given as function
Quad(tr, W, ks, v) ==
  RSumSeq([i \in 1..Len(ks) |->
     RSumSeq([j \in 1..Len(ks) |-> RMul(RMul(v[ks[i]], v[ks[j]]), Cov(tr, W, ks[i], ks[j]))])])

(***************************************************************************)
(* expected outcome per algo                                               *)
(***************************************************************************)
SameW(tr) == tr.out.hasw = tr.pre.hasw /\ (tr.pre.hasw => tr.out.w = tr.pre.w)
WIs(tr, f, ks) ==   \* weights exactly f over key set ks
  /\ tr.out.hasw /\ NoDupKeys(tr.out.w) /\ Keys(tr.out.w) = ks
  /\ \A k \in ks : ChkEq(Get(tr.out.w, k), f[k], 1000000) \in {"ok", "skip"}

Judge(tr) ==
  LET p == tr.p IN
  CASE tr.algo = "WeighEqually" ->
         LET n == Len(tr.sel) IN
         B("C15.ret", tr.out.ret)
         \cup B("C15.weights", IF n = 0 THEN tr.out.hasw /\ tr.out.w = <<>>
                               ELSE WIs(tr, [k \in SetOf(tr.sel) |-> Rat(1, n)], SetOf(tr.sel)))
    [] tr.algo = "WeighSpecified" ->
         B("C15.ret", tr.out.ret)
         \cup B("C15.weights", WIs(tr, [k \in Keys(p.w) |-> Get(p.w, k)], Keys(p.w)))
         \cup B("C15.template", p.template_intact /\ p.is_copy)
    [] tr.algo = "ScaleWeights" ->
         B("C15.ret", tr.out.ret)
         \cup B("C15.weights", WIs(tr, [k \in Keys(tr.pre.w) |-> RMul(p.scale, Get(tr.pre.w, k))], Keys(tr.pre.w)))
    [] tr.algo = "WeighTarget" ->
         IF p.row = 0 THEN B("C15.ret", ~tr.out.ret) \cup B("C15.weights", SameW(tr))
         ELSE LET ks == {k \in 1..tr.K : ~IsNaN(p.tab[p.row][k])}
              IN  B("C15.ret", tr.out.ret) \cup B("C15.weights", WIs(tr, [k \in ks |-> p.tab[p.row][k]], ks))
    [] tr.algo = "LimitDeltas" ->
         \* over children and targets: the new target differs from the live weight by
         \* at most the limit; targets already within the limit are untouched
         LET all == {k \in 1..tr.K : tr.child[k]} \cup Keys(tr.pre.w)
             lim(k) == IF p.global THEN p.limit ELSE Get(p.limits, k)
             tgt(k) == GetOr0(tr.pre.w, k)
             exp(k) == IF IsNaN(lim(k)) THEN tgt(k)
                       ELSE LET d == RSub(tgt(k), tr.cur[k])
                            IN  IF RGt(RAbs(d), lim(k))
                                THEN RAdd(tr.cur[k], IF RSign(d) = 1 THEN lim(k) ELSE RNeg(lim(k)))
                                ELSE tgt(k)
         IN  B("C15.ret", tr.out.ret)
             \cup B("C15.weights", tr.out.hasw /\ NoDupKeys(tr.out.w)
                      /\ \A k \in all : ChkEq(GetOr0(tr.out.w, k), exp(k), 1000000) \in {"ok", "skip"}
                      /\ Keys(tr.out.w) \subseteq all)
    [] tr.algo = "LimitWeights" ->
         IF ~tr.pre.hasw \/ tr.pre.w = <<>> THEN B("C15.ret", tr.out.ret) \cup B("C15.weights", SameW(tr))
         ELSE IF RLt(p.limit, Rat(1, Len(tr.pre.w)))
         THEN B("C15.ret", tr.out.ret) \cup B("C15.weights", tr.out.hasw /\ tr.out.w = <<>>)
         ELSE \* capped, total preserved, uncapped ones keep their proportions
              B("C15.ret", tr.out.ret)
              \cup B("C15.weights",
                     /\ tr.out.hasw /\ Keys(tr.out.w) = Keys(tr.pre.w)
                     /\ \A k \in Keys(tr.out.w) : Cmp(Get(tr.out.w, k), RAdd(p.limit, Floor6)) \in {-1, 0, 2}
                     /\ Near(SumW(tr.out.w), SumW(tr.pre.w), Floor6, One)
                     /\ \A k \in Keys(tr.out.w) :
                           RLe(Get(tr.pre.w, k), p.limit) => Cmp(Get(tr.out.w, k), RSub(Get(tr.pre.w, k), Floor6)) \in {0, 1, 2})
    [] tr.algo = "WeighRandomly" ->
         LET n == Len(tr.sel)
             feas == ~(RLt(RMul(R(n), p.high), p.total) \/ RGt(RMul(R(n), p.low), p.total)) /\ RLe(p.low, p.high)
         IN  B("C15.ret", tr.out.ret)
             \cup B("C15.weights",
                    IF ~feas THEN tr.out.hasw /\ tr.out.w = <<>>
                    ELSE /\ tr.out.hasw /\ Keys(tr.out.w) = SetOf(tr.sel)
                         /\ \A k \in Keys(tr.out.w) :
                               /\ Cmp(Get(tr.out.w, k), RSub(p.low, Floor6)) \in {0, 1, 2}
                               /\ Cmp(Get(tr.out.w, k), RAdd(p.high, Floor6)) \in {-1, 0, 2}
                         /\ Near(SumW(tr.out.w), p.total, Floor6, One))
    [] tr.algo = "WeighInvVol" ->
         LET n == Len(tr.sel) IN
         IF n = 0 THEN B("C15.weights", tr.out.hasw /\ tr.out.w = <<>>)
         ELSE IF n = 1 THEN B("C15.weights", WIs(tr, [k \in SetOf(tr.sel) |-> One], SetOf(tr.sel)))
         ELSE IF NRet(WinRows(tr, p.lookback, p.lag)) < 2 THEN {}   \* a sample variance needs two returns
         ELSE LET W  == WinRows(tr, p.lookback, p.lag)
                  ks == {k \in SetOf(tr.sel) : ~IsZero(Cov(tr, W, k, k))}      \* zero-variance assets drop out
              IN  IF ks = {} THEN B("C15.weights", tr.out.hasw /\ tr.out.w = <<>>) ELSE
                  B("C15.ret", tr.out.ret)
                  \cup B("C15.weights",
                     /\ tr.out.hasw /\ Keys(tr.out.w) = ks
                     /\ \A k \in ks : RSign(Get(tr.out.w, k)) \in {1, 2}
                     /\ Near(SumW(tr.out.w), One, Floor6, One)
                     \* w_i^2 var_i = w_j^2 var_j
                     /\ \A i, j \in ks :
                          Near(RMul(RMul(Get(tr.out.w, i), Get(tr.out.w, i)), Cov(tr, W, i, i)),
                               RMul(RMul(Get(tr.out.w, j), Get(tr.out.w, j)), Cov(tr, W, j, j)), Tol3, Floor6))
    [] tr.algo = "TargetVol" ->
         IF tr.pre.w = <<>> THEN B("C15.ret", tr.out.ret) \cup B("C15.weights", SameW(tr))
         ELSE IF NRet(WinRows(tr, p.lookback, p.lag)) < 2 THEN {}
         ELSE LET W  == WinRows(tr, p.lookback, p.lag)
                  ks == SortedSeq(Keys(tr.pre.w))
                  v  == [k \in 1..tr.K |-> GetOr0(tr.out.w, k)]
                  v0 == [k \in 1..tr.K |-> GetOr0(tr.pre.w, k)]
              IN  \* weights whose ex-ante variance is exactly zero cannot be scaled to a target
                  IF Bad(Quad(tr, W, ks, v0)) \/ IsZero(Quad(tr, W, ks, v0)) THEN {} ELSE
                  B("C15.ret", tr.out.ret)
                  \cup B("C15.weights",
                     /\ tr.out.hasw /\ Keys(tr.out.w) = Keys(tr.pre.w)
                     \* ex-ante variance of the new weights, annualised, equals target^2
                     /\ Near(RMul(Quad(tr, W, ks, v), p.af), RMul(p.vol, p.vol), Tol3, Floor6)
                     \* and the new weights are proportional to the old ones
                     /\ \A i, j \in Keys(tr.pre.w) :
                          Near(RMul(Get(tr.out.w, i), Get(tr.pre.w, j)), RMul(Get(tr.out.w, j), Get(tr.pre.w, i)), Tol3, Floor6))
    [] tr.algo = "PTE_Rebalance" ->
         \* True exactly when the tracking-error variance of (current - target) exceeds cap^2
         IF NRet(WinRows(tr, p.lookback, p.lag)) < 2 THEN {} ELSE
         LET W  == WinRows(tr, p.lookback, p.lag)
             ks == SortedSeq({k \in 1..tr.K : tr.child[k]} \cup {k \in 1..tr.K : ~IsNaN(p.target[k])})
             d  == [k \in 1..tr.K |-> RSub(IF tr.child[k] THEN tr.cur[k] ELSE Zero,
                                           IF IsNaN(p.target[k]) THEN Zero ELSE p.target[k])]
             te == RMul(Quad(tr, W, ks, d), p.af)
             c  == Cmp(te, RMul(p.cap, p.cap))
         IN  IF c = 2 \/ Near(te, RMul(p.cap, p.cap), Rat(1, 50), Floor6) THEN {}   \* too close to call
             ELSE B("C15.pte", tr.out.ret = (c = 1))
    [] OTHER -> {<<"C15.unknown", 0>>}
=============================================================================
