----------------------------- MODULE BtSizing -----------------------------
(***************************************************************************)
(* Implementation-shaped layer for C05: a transcription, in exact          *)
(* arithmetic, of the quantity search in SecurityBase.allocate as pinned   *)
(* (direction-dependent rounding, close-out shortcut, Newton-like loop,    *)
(* the break test and the three raise conditions).                         *)
(*                                                                         *)
(* It is used for two things only:                                         *)
(*  - the design check MC_BtSizing evaluates it on a whole grid and         *)
(*    derives where the shipped search disagrees with the property         *)
(*    AllocSecChk (known-finding classes K1a..K1e);                        *)
(*  - the trace specs use it in the *signature* of those known findings:   *)
(*    a failing sizing clause is a known finding only if the observed      *)
(*    outcome is exactly the pinned algorithm's outcome and the input is   *)
(*    in one of the listed structural classes.  Any other failure is a     *)
(*    violation.                                                           *)
(***************************************************************************)
EXTENDS BtAbs

\* the commission function as the code evaluates it (no special case q = 0)
CommRaw(m, q, p) ==
  CASE m.k = "zero" -> Zero
    [] m.k = "fix"  -> m.a
    [] m.k = "unit" -> RMul(m.a, RAbs(q))
    [] m.k = "tier" -> RMax(m.a, RMul(m.b, RAbs(q)))
    [] m.k = "prop" -> RMul(m.a, RMul(RAbs(q), p))
    [] m.k = "sell" -> IF RSign(q) = -1 THEN RMul(m.a, RMul(RAbs(q), p)) ELSE Zero
    [] m.k = "buy"  -> IF RSign(q) = 1 THEN RMul(m.a, RMul(RAbs(q), p)) ELSE Zero
    [] OTHER        -> Zero
CodeOutlay(C, st, x, q) ==
  RAdd(RAdd(RMul(q, UnitPx(C, st, x)), HalfSpread(C, st, x, q)),
       CommRaw(C.comm[C.par[x]], q, UnitPx(C, st, x)))

RECURSIVE ShipLoop(_, _, _, _, _, _, _, _, _)
\* returns [q, exc]
ShipLoop(C, st, x, a, q, full, lastq, lastshort, i) ==
  IF Bad(full) \/ Bad(q) THEN [q |-> OVF, exc |-> "ovf"] ELSE
  IF full = a \/ IsZero(q) THEN [q |-> q, exc |-> "none"] ELSE
  IF i > 60 THEN [q |-> OVF, exc |-> "ovf"] ELSE
  LET q1r == RSub(q, RDiv(RSub(full, a), UnitPx(C, st, x)))
      q1  == IF Bad(q1r) THEN q1r ELSE IF C.integer THEN R(RFloor(q1r)) ELSE q1r
      f1  == CodeOutlay(C, st, x, q1)
      f2  == CodeOutlay(C, st, x, RAdd(q1, One))
  IN  IF Bad(q1) \/ Bad(f1) \/ Bad(f2) THEN [q |-> OVF, exc |-> "ovf"] ELSE
      IF C.integer /\ RLt(f1, a) /\ RGt(f2, a) THEN [q |-> q1, exc |-> "none"] ELSE
      IF C.integer /\ lastq = q1 THEN [q |-> q1, exc |-> "stuck"] ELSE
      IF RGt(RAbs(RSub(f1, a)), RAbs(lastshort)) THEN [q |-> q1, exc |-> "bigger"] ELSE
      ShipLoop(C, st, x, a, q1, f1, q1, RSub(f1, a), i + 1)

ShippedQ(C, st, x, a) ==
  IF IsZero(a) THEN [q |-> Zero, exc |-> "none"] ELSE
  IF PriceUnusable(C, st, x) THEN [q |-> Zero, exc |-> "price"] ELSE
  IF RAdd(a, SecVal(C, st, x)) = Zero THEN [q |-> RNeg(st.pos[x]), exc |-> "none"] ELSE
  LET qr == RDiv(a, UnitPx(C, st, x))
      q0 == IF Bad(qr) THEN qr ELSE
            IF ~C.integer THEN qr ELSE
            IF RSign(st.pos[x]) = 1 \/ (IsZero(st.pos[x]) /\ RSign(a) = 1)
            THEN R(RFloor(qr)) ELSE R(RCeil(qr))
  IN  IF Bad(q0) THEN [q |-> OVF, exc |-> "ovf"] ELSE
      IF IsZero(q0) THEN [q |-> Zero, exc |-> "none"] ELSE
      IF q0 = RNeg(st.pos[x]) THEN [q |-> q0, exc |-> "none"] ELSE
      LET full == CodeOutlay(C, st, x, q0)
      IN  ShipLoop(C, st, x, a, q0, full, q0, RSub(full, a), 0)

(***************************************************************************)
(* Known-finding classes of the pinned search (whole-unit positions).      *)
(* Each is a structural predicate on the input; KF_C05 names the class of  *)
(* a failing point, or "none".                                             *)
(***************************************************************************)
K1a(C, st, x, a) ==  \* flat or short, -unit price < amount < 0: rounds to no trade
  /\ RSign(st.pos[x]) \in {0, -1} /\ RSign(a) = -1
  /\ RGt(a, RNeg(UnitPx(C, st, x)))
K1b(C, st, x, a, q) ==  \* rounding lands on -position: the budget test is skipped
  /\ q = RNeg(st.pos[x]) /\ ~IsZero(q) /\ RAdd(a, SecVal(C, st, x)) # Zero
K1c(C, st, x, a, sh) ==  \* the Newton step overshoots to q = 0 and the loop exits
  /\ sh.exc = "none" /\ IsZero(sh.q) /\ ~IsZero(a)
K1f(a, sh) ==  \* a positive amount answered by a sale (minimum fee charged on q + 1 = 0)
  /\ sh.exc = "none" /\ RSign(a) = 1 /\ RSign(sh.q) = -1
K1d(sh) == sh.exc = "bigger"
K1e(sh) == sh.exc = "stuck"

\* the budget that reaches node n when amount a is allocated to its ancestor top
RECURSIVE BudgetOf(_, _, _, _, _)
BudgetOf(C, st, n, top, a) ==
  IF n = top THEN a ELSE RMul(BudgetOf(C, st, C.par[n], top, a), st.swgt[n])

\* class of a sizing failure: q observed (OVF when the call raised)
KF_C05(C, st, x, a, q, raised) ==
  IF ~C.integer \/ Bad(a) THEN "none" ELSE
  LET sh == ShippedQ(C, st, x, a)
  IN  IF sh.exc = "ovf" THEN "none"
      ELSE IF raised THEN (IF K1d(sh) THEN "K1d" ELSE IF K1e(sh) THEN "K1e" ELSE "none")
      ELSE IF sh.exc # "none" \/ sh.q # q THEN "none"
      ELSE IF K1a(C, st, x, a) /\ IsZero(q) THEN "K1a"
      ELSE IF K1b(C, st, x, a, q) THEN "K1b"
      ELSE IF K1c(C, st, x, a, sh) THEN "K1c"
      ELSE IF K1f(a, sh) THEN "K1f"
      ELSE "none"
=============================================================================
