---------------------------- MODULE MC_BtStack ----------------------------
(***************************************************************************)
(* Design check for C13 over every flat stack of up to MaxLen leaves and   *)
(* every Or / Not / nested-stack combination one level deep: the documented *)
(* laws of stack execution hold for Exec.                                   *)
(***************************************************************************)
EXTENDS BtStack
CONSTANTS MaxLen
VARIABLE e
vars == <<e>>

LeafSet(i) == [t : {"leaf"}, id : {i}, ret : BOOLEAN, ra : {"absent", "true", "false"}]
Seqs == UNION { {<<>>},
                {<<a>> : a \in LeafSet(1)},
                {<<a, b>> : a \in LeafSet(1), b \in LeafSet(2)},
                {<<a, b, c>> : a \in LeafSet(1), b \in LeafSet(2), c \in LeafSet(3)} }
Seqs4 == {<<a, b, c, d>> : a \in LeafSet(1), b \in LeafSet(2), c \in LeafSet(3), d \in LeafSet(4)}
Flat == [t : {"stack"}, items : IF MaxLen >= 4 THEN Seqs \cup Seqs4 ELSE Seqs]
Pairs == {<<a, b>> : a \in LeafSet(1), b \in LeafSet(2)}
Nested ==
  {[t |-> "stack", items |-> <<[t |-> "or", items |-> p], l>>] : p \in Pairs, l \in LeafSet(3)}
  \cup {[t |-> "stack", items |-> <<[t |-> "not", item |-> a], l>>] : a \in LeafSet(1), l \in LeafSet(3)}
  \cup {[t |-> "stack", items |-> <<l, [t |-> "stack", items |-> p]>>] : p \in Pairs, l \in LeafSet(3)}

Init == e \in Flat \cup Nested
Next == UNCHANGED e
Spec == Init /\ [][Next]_vars

IsFlat == e.t = "stack" /\ \A i \in 1..Len(e.items) : e.items[i].t = "leaf"
FirstFalse == LET S == {i \in 1..Len(e.items) : ~e.items[i].ret}
              IN  IF S = {} THEN Len(e.items) + 1 ELSE CHOOSE i \in S : \A j \in S : i <= j
Called(i) == \E k \in 1..Len(Exec(e).calls) : Exec(e).calls[k] = e.items[i].id

\* a flat stack: reports False iff some algo returned False; runs everything up
\* to and including the first failure; afterwards exactly the run_always ones;
\* in order, each at most once
Inv_Flat ==
  IsFlat =>
    LET r == Exec(e) ff == FirstFalse
    IN  /\ r.ret = (ff > Len(e.items))
        /\ \A i \in 1..Len(e.items) :
              Called(i) <=> (i <= ff \/ e.items[i].ra = "true")
        /\ \A k \in 1..(Len(r.calls) - 1) : r.calls[k] < r.calls[k + 1]
\* Or runs every branch and reports whether any succeeded; Not inverts
Inv_Nested ==
  ~IsFlat =>
    LET h == e.items[1]
    IN  /\ (h.t = "or" => /\ Exec(h).calls = <<1, 2>>
                          /\ Exec(h).ret = (h.items[1].ret \/ h.items[2].ret))
        /\ (h.t = "not" => Exec(h).ret = ~h.item.ret /\ Exec(h).calls = <<1>>)
        /\ (h.t \in {"or", "not"} => (Exec(e).ret = (Exec(h).ret /\ e.items[2].ret)))
=============================================================================
