SPECIFICATION Spec
CONSTANTS
  K = 3
  MaxReruns = 1
INVARIANT Inv_TemplateUntouched
INVARIANT Inv_ResultIsSolo
PROPERTY Act_Isolation
CHECK_DEADLOCK FALSE
