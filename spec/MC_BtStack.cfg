SPECIFICATION Spec
CONSTANTS
  MaxLen = 4
INVARIANT Inv_Flat
INVARIANT Inv_Nested
CHECK_DEADLOCK FALSE
