---------------------------- MODULE Trace_BtAbs ----------------------------
(***************************************************************************)
(* Trace validation of recorded executions of the real bt tree against the *)
(* abstract ledger BtAbs (the judge of DESIGN.md 4.3).                     *)
(*                                                                         *)
(* The file named by the environment variable TRACE_FILE holds a batch of  *)
(* traces; each trace is a configuration C and a sequence of events, one   *)
(* per outermost public call, with the public observation taken on a deep  *)
(* copy after the call.  For every event the step action                   *)
(*   - binds what the property leaves open from the log (the quantity each *)
(*     security traded),                                                   *)
(*   - computes the post-state with the same operators MC_BtAbs checks,    *)
(*   - evaluates every clause of every property on (state, event, post).   *)
(* Verdicts are total: exactly one line  <<"V", tid, verdict, ...>> per     *)
(* trace.                                                                  *)
(***************************************************************************)
EXTENDS BtSizing, Json, IOUtils, TLCExt

Doc    == JsonDeserialize(IOEnv.TRACE_FILE)
Traces == Doc.traces

VARIABLES tid, l, st, pchk, settled, done, ent
vars == <<tid, l, st, pchk, settled, done, ent>>

Apply(C, s, ev) ==
  LET r == RT(s, ev.trades)
  IN  CASE ev.op = "adjust"    -> AdjustOp(C, r, ev.node, ev.a, ev.flow, ev.b, ev.upd)
        [] ev.op = "update"    -> UpdateOp(C, r, ev.date)
        [] ev.op = "read"      -> IF s.fresh THEN r ELSE RefreshR(C, r)
        [] ev.op = "allocate"  -> AllocateOp(C, r, ev.node, ev.a, ev.upd)
        [] ev.op = "transact"  -> TransactOp(C, r, ev.node, ev.a, ev.b, ev.upd)
        [] ev.op = "rebalance" -> RebalanceOp(C, r, ev.node, ev.a, ev.child, ev.b, ev.upd)
        [] ev.op = "close"     -> CloseOp(C, r, ev.node, ev.child, ev.upd)
        [] ev.op = "flatten"   -> FlattenOp(C, r, ev.node)
        [] OTHER               -> r

(***************************************************************************)
(* C10: the operation raises iff the situation is one of the enumerated    *)
(* ill-formed ones.                                                        *)
(***************************************************************************)
TargetSec(C, ev) == IF ev.op = "rebalance" THEN ev.child ELSE ev.node
\* a zero return base that is zero by construction (never funded, nothing booked) - as
\* opposed to a previous value and flows that cancel exactly, which the code's floats
\* need not see as zero (then a raise is allowed, not required)
ZeroBaseHard(C, z, n) == ZeroBase(C, z, n) /\ IsZero(z.pval[n]) /\ IsZero(z.flow[n])
RaiseCases(C, s, ev, post, ZB(_, _)) ==
  \/ ev.op \in {"allocate", "rebalance"} /\ IsSec(C, TargetSec(C, ev)) /\ ~IsZero(ev.a)
       /\ s.t > 0 /\ PriceUnusable(C, s, TargetSec(C, ev))
  \/ ev.op = "update" /\ ev.date # s.t /\ OpenOnMissing(C, s, ev.date)
  \/ ev.op = "transact" /\ IsSec(C, ev.node) /\ ~IsNaN(ev.b) /\ ~C.bidoffer /\ ~IsZero(ev.a)
  \/ post.fresh /\ post.t > 0 /\ \E n \in Nodes(C) : IsStrat(C, n) /\ ZB(post, n)
  \* closing a sub-strategy flattens it and reads its value: a refresh in the middle
  \/ /\ ev.op \in {"close", "rebalance"} /\ IsStrat(C, ev.child) /\ Len(C.kids[ev.child]) > 0
     /\ (ev.op = "close" \/ IsZero(ev.a)) /\ ~C.fi[ev.child] /\ s.t > 0
     /\ LET mid == CloseMid(C, RT(s, ev.trades), ev.child).st
        IN  \E n \in Nodes(C) : IsStrat(C, n) /\ ZB(mid, n)
\* the operation must raise / may raise
ExpectRaise(C, s, ev, post) == RaiseCases(C, s, ev, post, LAMBDA z, n : ZeroBaseHard(C, z, n))
MayRaise(C, s, ev, post) == RaiseCases(C, s, ev, post, LAMBDA z, n : ZeroBase(C, z, n))

(***************************************************************************)
(* Known findings: signatures over the abstract input of the event.        *)
(***************************************************************************)
\* K5: a sub-strategy worth exactly zero still holds positions after the event
K5Obs(C, ev) ==
  ev.exc = "none" /\ ev.fresh /\ \E k \in Nodes(C) : /\ IsStrat(C, k) /\ k # Root /\ IsZero(ev.val[k])
                                   /\ \E x \in Nodes(C) : IsSec(C, x) /\ InSubtree(C, x, k)
                                                          /\ ~IsZero(ev.pos[x])
\* K12: flatten / close in a fixed-income strategy read .position of a child
\* strategy, which has none
K12(C, ev) ==
  /\ ev.exc # "none" /\ C.fi[ev.node]
  /\ \/ ev.op = "flatten" /\ \E i \in 1..Len(C.kids[ev.node]) : IsStrat(C, C.kids[ev.node][i])
     \/ ev.op \in {"close", "rebalance"} /\ IsStrat(C, ev.child)
KnownFinding(C, s, ev, isSettled) ==
  IF K12(C, ev) THEN "K12" ELSE
  \* K7: the paper-trading shadow of a sub-strategy is run on the pre-start row
  IF ev.exc # "none" /\ ev.op = "update" /\ ev.date = 1 /\ s.t = 0
     /\ (\E n \in Nodes(C) : n # Root /\ IsStrat(C, n)) THEN "K7" ELSE
  IF K5Obs(C, ev) /\ (ev.bankrupt \/ ev.op \in {"flatten", "close"}) THEN "K5" ELSE
  IF ev.op = "update" /\ ev.date # s.t /\ s.t > 0 /\ ~isSettled THEN "F10"
  ELSE "none"

\* a raise inside the sizing search of a directly addressed security
\* (also below a sub-strategy that pushes an amount down by its weights)
PushKF(C, s, n, a) ==
  LET hit == {x \in Nodes(C) : IsSec(C, x) /\ InSubtree(C, x, n) /\
                 KF_C05(C, s, x, BudgetOf(C, s, x, n, a), OVF, TRUE) # "none"}
  IN  IF hit = {} THEN "none"
      ELSE LET x == CHOOSE y \in hit : TRUE
           IN  KF_C05(C, s, x, BudgetOf(C, s, x, n, a), OVF, TRUE)
RaiseKF(C, s, ev) ==
  IF ev.op = "allocate" /\ IsSec(C, ev.node) /\ s.t > 0
  THEN KF_C05(C, s, ev.node, ev.a, OVF, TRUE)
  ELSE IF ev.op = "allocate" /\ IsStrat(C, ev.node) /\ s.t > 0
  THEN PushKF(C, s, ev.node, ev.a)
  ELSE IF ev.op = "rebalance" /\ IsSec(C, ev.child) /\ s.t > 0 /\ ~C.fi[ev.node] /\ ~IsZero(ev.a)
  THEN KF_C05(C, s, ev.child,
              RSub(RMul(ev.a, IF IsNaN(ev.b) THEN s.sval[ev.node] ELSE ev.b),
                   RMul(s.swgt[ev.child], s.sval[ev.node])), OVF, TRUE)
  ELSE IF ev.op = "rebalance" /\ IsStrat(C, ev.child) /\ s.t > 0 /\ ~C.fi[ev.node] /\ ~IsZero(ev.a)
  THEN PushKF(C, s, ev.child, RebalanceAmount(C, s, ev.node, ev.a, ev.child, ev.b))
  ELSE "none"

(***************************************************************************)
(* Clauses.  Each is <<name, node, verdict>>.                              *)
(***************************************************************************)
ForNodes(C, P(_), F(_)) ==
  LET S == SelectSeq([i \in 1..C.N |-> i], P) IN [i \in 1..Len(S) |-> F(S[i])]

SumKidsObs(C, f, n) == RSumSeq([i \in 1..Len(C.kids[n]) |-> f[C.kids[n][i]]])

\* securities whose exact budget was minus their value but which were sized by
\* the ordinary rule (known finding K4)
IsK4(C, s, e) ==
  /\ e[1] \in {"C05.sizing", "C06.rebalance", "C06.pushdown"} /\ e[2] = "ok" /\ s.t > 0 /\ ~Bad(e[4]) /\ ~IsZero(e[4])
  \* (value and position as they were when this trade was sized: one event may
  \* trade a security, go bankrupt and liquidate it)
  /\ RAdd(e[4], e[6]) = Zero /\ e[5] # RNeg(e[7])
\* (a liquidation at a date change trades at the new date's prices)
AtPost(s, r) == [s EXCEPT !.t = r.st.t]
K4Nodes(C, s, r) == {r.chk[i][3] : i \in {j \in 1..Len(r.chk) : IsK4(C, AtPost(s, r), r.chk[j])}}

Judge(C, s, ev, r, prevchk) ==
  LET post == r.st
      D    == C.D
      raw  == \* clauses that need no fresh read
        ForNodes(C, LAMBDA n : IsStrat(C, n),
                 LAMBDA n : <<"C07.cash", n, ChkEq(ev.cash[n], post.cash[n], D)>>)
        \o [i \in 1..Len(r.chk) |->
              <<r.chk[i][1], r.chk[i][3],
                IF IsK4(C, AtPost(s, r), r.chk[i]) THEN "K4"
                ELSE IF r.chk[i][2] # "fail" \/ r.chk[i][1] \notin {"C05.sizing", "C06.rebalance", "C06.pushdown"} THEN r.chk[i][2]
                ELSE LET k == KF_C05(C, s, r.chk[i][3], r.chk[i][4], r.chk[i][5], FALSE)
                     IN  IF k = "none" THEN "fail" ELSE k>>]
        \* every executed trade is explained by the operation, and positions follow
        \o <<<<"C05.notrade", 1, ChkBool(r.tr = <<>>)>>>>
        \o ForNodes(C, LAMBDA n : IsSec(C, n),
                 LAMBDA n : <<"C07.position", n, ChkEq(ev.pos[n], post.pos[n], D)>>)
        \o <<<<"C16.flag", 1, ChkBool(ev.bankrupt = post.bankrupt)>>>>
        \* terminal: once bankrupt no strategy of the tree is run any more and the
        \* books do not move (date changes included)
        \o (IF s.bankrupt THEN
              \* (a paper-trading shadow is driven by its parent's update, not by the
              \* backtest loop: what happens to a bankrupt shadow is C09's business)
              <<<<"C16.norun", ev.node, ChkBool(C.paper \/ ev.op \notin {"run", "algo_enter"})>>>>
              \o ForNodes(C, LAMBDA n : IsStrat(C, n),
                    LAMBDA n : <<"C16.terminal", n, ChkEq(ev.cash[n], s.cash[n], D)>>)
              \o ForNodes(C, LAMBDA n : IsSec(C, n),
                    LAMBDA n : <<"C16.terminal", n, ChkBool(IsZero(ev.pos[n]) \/ ~IsZero(s.pos[n]))>>)
            ELSE <<>>)
        \o <<<<"C10.finite", 1, ChkBool(ev.finite)>>>>
      fresh ==
        IF ~(ev.fresh /\ post.fresh) THEN <<>> ELSE
        \* C01: literal identities on the observation, prices from the input table
        ForNodes(C, LAMBDA n : IsStrat(C, n),
                 LAMBDA n : <<"C01.sum", n,
                     ChkEqG(ev.val[n], RAdd(ev.cash[n], SumKidsObs(C, ev.val, n)), Val(C, post, n), D)>>)
        \o ForNodes(C, LAMBDA n : IsSec(C, n),
                 LAMBDA n : <<"C01.secvalue", n,
                     ChkEqG(ev.val[n], IF IsZero(ev.pos[n]) THEN Zero
                                       ELSE RMul(RMul(ev.pos[n], Px(C, n, post.t)), C.mult[n]),
                            Val(C, post, n), D)>>)
        \o ForNodes(C, LAMBDA n : n # Root /\ ~C.fi[C.par[n]],
                 LAMBDA n : <<"C01.weight", n,
                     \* (a parent value that is floating-point residue, not exactly 0,
                     \* makes the quotient meaningless: not judged)
                     IF IsZero(ev.val[C.par[n]]) /\ ~ev.vz[C.par[n]] THEN "skip" ELSE
                     ChkEqG(ev.wgt[n], IF IsZero(ev.val[C.par[n]]) THEN Zero
                                       ELSE RDiv(ev.val[n], ev.val[C.par[n]]),
                            IF Bad(Val(C, post, n)) \/ Val(C, post, n)[2] > D
                               \/ Bad(Val(C, post, C.par[n])) \/ Val(C, post, C.par[n])[2] > D
                            THEN OVF ELSE Wgt(C, post, n), C.DW)>>)
        \o ForNodes(C, LAMBDA n : TRUE,
                 LAMBDA n : <<"C01.row.value", n, ChkEqG(ev.rows.value[n], ev.val[n], Val(C, post, n), D)>>)
        \o ForNodes(C, LAMBDA n : TRUE,
                 LAMBDA n : <<"C01.row.notl", n, ChkEqG(ev.rows.notl[n], ev.notl[n], Notl(C, post, n), D)>>)
        \o ForNodes(C, LAMBDA n : IsStrat(C, n),
                 LAMBDA n : <<"C01.row.cash", n, ChkEqG(ev.rows.cash[n], ev.cash[n], post.cash[n], D)>>)
        \o ForNodes(C, LAMBDA n : IsSec(C, n),
                 LAMBDA n : <<"C01.row.pos", n, ChkEqG(ev.rows.pos[n], ev.pos[n], post.pos[n], D)>>)
        \* the rows of the date just closed equal its end-of-date state
        \o (IF post.t # s.t /\ s.t > 0 /\ s.fresh THEN
              ForNodes(C, LAMBDA n : TRUE,
                 LAMBDA n : <<"C01.close.value", n, ChkEq(ev.prev.value[n], s.sval[n], D)>>)
              \o ForNodes(C, LAMBDA n : IsStrat(C, n),
                 LAMBDA n : <<"C01.close.cash", n, ChkEq(ev.prev.cash[n], s.cash[n], D)>>)
              \o ForNodes(C, LAMBDA n : IsSec(C, n),
                 LAMBDA n : <<"C01.close.pos", n, ChkEq(ev.prev.pos[n], s.pos[n], D)>>)
              \o ForNodes(C, LAMBDA n : IsStrat(C, n),
                 LAMBDA n : <<"C07.close.fees", n, ChkEq(ev.prev.fees[n], s.fee[n], D)>>)
              \o ForNodes(C, LAMBDA n : IsStrat(C, n),
                 LAMBDA n : <<"C07.close.flows", n, ChkEq(ev.prev.flows[n], s.flow[n], D)>>)
              \o ForNodes(C, LAMBDA n : IsSec(C, n),
                 LAMBDA n : <<"C07.close.outlay", n, ChkEq(ev.prev.outl[n], s.outl[n], D)>>)
            ELSE <<>>)
        \* the code follows the ledger: observed value = derived value
        \o ForNodes(C, LAMBDA n : TRUE,
                 LAMBDA n : <<"C02.value", n, ChkEq(ev.val[n], Val(C, post, n), D)>>)
        \* C02: P&L attribution since the previous close, root level
        \* (a value outside the representable range is not judged)
        \o <<<<"C02.attribution", 1,
              IF Bad(Val(C, post, Root)) \/ Bad(PnlRHS(C, post)) THEN "skip"
              ELSE ChkEq(RSub(ev.val[Root], post.pval[Root]), PnlRHS(C, post), D)>>>>
        \* ... with the costs as the tree *reports* them: today's recorded fees and
        \* bid/offer paid are the amounts the attribution subtracts
        \o <<<<"C02.costs.fees", 1,
              ChkEq(RSumSeq([i \in 1..Len(StratSeq(C)) |-> ev.rows.fees[StratSeq(C)[i]]]),
                    SumAll(post.fee, StratSeq(C)), D)>>,
             <<"C02.costs.bidoffer", 1,
              IF ~C.bidoffer THEN "ok"
              ELSE ChkEq(RSumSeq([i \in 1..Len(SecSeq(C)) |-> ev.rows.bop[SecSeq(C)[i]]]),
                         SumAll(post.bop, SecSeq(C)), D)>>>>
        \* C03: index ratio (market value) / difference (fixed income)
        \o (IF ~post.bankrupt /\ ~s.bankrupt THEN
              <<<<IF C.fi[Root] THEN "C17.index" ELSE "C03.ratio", 1,
                 ChkEq(ev.ratio, IF C.fi[Root] THEN IdxDiff(C, post, Root)
                                 ELSE IdxRatio(C, post, Root), C.DW)>>>>
            ELSE <<>>)
        \* C07: recorded accumulators of the date
        \o ForNodes(C, LAMBDA n : IsStrat(C, n),
                 LAMBDA n : <<"C07.fees", n, ChkEq(ev.rows.fees[n], post.fee[n], D)>>)
        \o ForNodes(C, LAMBDA n : IsStrat(C, n),
                 LAMBDA n : <<"C07.flows", n, ChkEq(ev.rows.flows[n], post.flow[n], D)>>)
        \o ForNodes(C, LAMBDA n : IsSec(C, n),
                 LAMBDA n : <<"C07.outlay", n, ChkEq(ev.rows.outl[n], post.outl[n], D)>>)
        \o (IF C.bidoffer THEN ForNodes(C, LAMBDA n : IsSec(C, n),
                 LAMBDA n : <<"C07.bidoffer", n, ChkEq(ev.rows.bop[n], post.bop[n], D)>>)
              \o ForNodes(C, LAMBDA n : IsStrat(C, n),
                 LAMBDA n : <<"C07.bidoffer", n,
                    ChkEq(ev.rows.bop[n],
                          RSumSeq([i \in 1..C.N |-> IF IsSec(C, i) /\ InSubtree(C, i, n)
                                                    THEN post.bop[i] ELSE Zero]), D)>>)
            ELSE <<>>)
        \* C07: the ledger identity on the recorded rows themselves
        \o ForNodes(C, LAMBDA n : IsStrat(C, n),
                 LAMBDA n : <<"C07.ledger", n,
                    ChkEqG(RSub(ev.rows.cash[n], post.pcash[n]),
                          RSub(RSub(RSub(RAdd(RAdd(ev.rows.flows[n], post.nonflow[n]), post.swept[n]),
                               RSumSeq([i \in 1..Len(C.kids[n]) |->
                                  IF IsSec(C, C.kids[n][i]) THEN ev.rows.outl[C.kids[n][i]] ELSE Zero])),
                               ev.rows.fees[n]),
                               RSumSeq([i \in 1..Len(C.kids[n]) |->
                                  IF IsStrat(C, C.kids[n][i]) THEN ev.rows.flows[C.kids[n][i]] ELSE Zero])),
                           IF \E k \in Nodes(C) : Bad(post.cash[k]) \/ post.cash[k][2] > D \/ Bad(post.outl[k])
                                                  \/ post.outl[k][2] > D \/ post.fee[k][2] > D \/ post.flow[k][2] > D
                           THEN OVF ELSE post.cash[n], D)>>)
        \* C08
        \o <<<<"C08.readfresh", 1, ChkBool(ev.rau)>>,
             <<"C08.beyondnow", 1, ChkBool(ev.lastidx <= post.t)>>,
             <<"C08.frozen", 1, ChkBool(prevchk < 0 \/
                  (IF post.t = s.t THEN ev.chknow = prevchk ELSE ev.chkprev = prevchk))>>>>
        \o (IF ev.op = "update" /\ ev.date = s.t /\ s.fresh
            THEN <<<<"C08.idempotent", 1, ChkBool(ev.same)>>>> ELSE <<>>)
        \* paired run: the same history with redundant updates / reads inserted
        \* elsewhere observes exactly what the base run observed after this call
        \o <<<<"C08.variant", 1, ChkBool(ev.eqbase)>>>>
        \* C16
        \* (judged at the event that liquidates; afterwards C16.terminal keeps positions fixed)
        \o (IF post.bankrupt /\ ~s.bankrupt THEN ForNodes(C, LAMBDA n : IsSec(C, n),
                 LAMBDA n : <<"C16.liquidated", n,
                    IF IsZero(ev.pos[n]) THEN "ok" ELSE IF n \in K4Nodes(C, s, r) THEN "K4" ELSE "fail">>)
            ELSE <<>>)
        \* C17: notional per node kind, notional weights, coupons and carry
        \o ForNodes(C, LAMBDA n : TRUE,
                 LAMBDA n : <<"C17.notional", n, ChkEq(ev.notl[n], Notl(C, post, n), D)>>)
        \o ForNodes(C, LAMBDA n : n # Root /\ C.fi[C.par[n]],
                 LAMBDA n : <<"C17.weight", n,
                     IF IsZero(ev.notl[C.par[n]]) /\ ~ev.nz[C.par[n]] THEN "skip" ELSE
                     ChkEqG(ev.wgt[n], IF IsZero(ev.notl[C.par[n]]) THEN Zero
                                       ELSE RDiv(ev.notl[n], ev.notl[C.par[n]]),
                            IF Bad(Notl(C, post, n)) \/ Notl(C, post, n)[2] > D
                               \/ Bad(Notl(C, post, C.par[n])) \/ Notl(C, post, C.par[n])[2] > D
                            THEN OVF ELSE Wgt(C, post, n), C.DW)>>)
        \o ForNodes(C, LAMBDA n : IsCpn(C, n),
                 LAMBDA n : <<"C17.coupon", n, ChkEq(ev.rows.cpn[n], post.cpn[n], D)>>)
        \o ForNodes(C, LAMBDA n : IsCpn(C, n),
                 LAMBDA n : <<"C17.holdingcost", n, ChkEq(ev.rows.hc[n], post.hc[n], D)>>)
  IN raw \o fresh

(***************************************************************************)
(* C06: post-condition of the Rebalance algo, evaluated when it returns.   *)
(* ent = what was recorded when the algo was entered: the strategy, its    *)
(* value B, the targets w, the cash fraction c, the costs paid so far.     *)
(***************************************************************************)
NoEnt == [active |-> FALSE, node |-> 0, val |-> Zero, w |-> <<>>, cash |-> NaN, cost |-> Zero, notl |-> NaN, snotl |-> Zero]
CostSoFar(C, s) == RAdd(SumAll(s.fee, StratSeq(C)), SumAll(s.bop, SecSeq(C)))
TargetOf(w, k) == LET S == {i \in 1..Len(w) : w[i][1] = k}
                  IN  IF S = {} THEN NaN ELSE w[CHOOSE i \in S : TRUE][2]
RECURSIVE FlatBelow(_, _, _)
FlatBelow(C, s, n) == IF IsSec(C, n) THEN IsZero(s.pos[n])
                      ELSE \A i \in 1..Len(C.kids[n]) : FlatBelow(C, s, C.kids[n][i])
C06Clauses(C, post, e) ==
  LET n == e.node
      c == IF IsNaN(e.cash) THEN Zero ELSE e.cash
      K == RSub(CostSoFar(C, post), e.cost)
      exact == ~C.integer /\ IsZero(K)
  IN  IF C.fi[n] THEN <<>> ELSE
      [i \in 1..Len(C.kids[n]) |->
         LET k == C.kids[n][i]
             w == TargetOf(e.w, k)
         IN  IF IsNaN(w) THEN <<"C06.closed", k, ChkBool(FlatBelow(C, post, k))>>
             ELSE IF Bad(w) THEN <<"C06.target", k, "skip">>
             ELSE IF IsZero(w) /\ IsSec(C, k) THEN <<"C06.closed", k, ChkBool(IsZero(post.pos[k]))>>
             ELSE LET tgt == RMul(RMul(w, RSub(One, c)), e.val)
                      dev == RAbs(RSub(Val(C, post, k), tgt))
                      bnd == IF exact THEN Zero
                             ELSE IF IsSec(C, k)
                                  THEN RAdd(RAdd(RAdd(UnitPx(C, post, k), HalfSpread(C, post, k, One)),
                                                 FeeOf(C, post, k, One)), RAdd(K, K))
                                  ELSE RAdd(K, K)
                  IN  <<"C06.target", k,
                        IF exact THEN ChkEq(Val(C, post, k), tgt, C.D)
                        ELSE ChkCmp(Cmp(dev, bnd), {-1, 0})>>]

\* (a value outside 32-bit rationals also hides whether the tree is bankrupt)
(***************************************************************************)
(* C17: post-condition of Rebalance in a fixed-income strategy: every      *)
(* targeted child ends at weight x base notional, base = the notional set  *)
(* by SetNotional (temp['notional_value'], zero included) or, absent that, *)
(* the strategy's notional on entry; children not targeted are closed.     *)
(***************************************************************************)
C17Clauses(C, post, e) ==
  LET n    == e.node
      base == IF IsNaN(e.notl) THEN e.snotl ELSE e.notl
      K    == RSub(CostSoFar(C, post), e.cost)
  IN  IF ~C.fi[n] THEN <<>> ELSE
      [i \in 1..Len(C.kids[n]) |->
         LET k == C.kids[n][i]
             w == TargetOf(e.w, k)
         IN  IF IsNaN(w) THEN (IF IsSec(C, k) THEN <<"C17.rebalance_closed", k, ChkBool(IsZero(post.pos[k]))>>
                               ELSE <<"C17.rebalance_closed", k, "skip">>)
             ELSE IF Bad(w) \/ Bad(base) THEN <<"C17.rebalance_target", k, "skip">>
             ELSE LET tgt == RMul(w, base)
                  IN  IF IsSec(C, k) /\ C.fi[k] /\ C.kind[k] \in {"cpsec", "fisec"}
                      THEN \* a fixed-income child is transacted in notional terms: exact
                           <<"C17.rebalance_target", k, ChkEq(Notl(C, post, k), tgt, C.D)>>
                      ELSE IF C.kind[k] = "sec"
                      THEN \* a plain security is allocated capital: within one unit and the costs paid
                           LET dev == RAbs(RSub(Notl(C, post, k), tgt))
                               bnd == RAdd(RAdd(RAdd(UnitPx(C, post, k), HalfSpread(C, post, k, One)),
                                                FeeOf(C, post, k, One)), RAdd(K, K))
                           IN  <<"C17.rebalance_target", k, ChkCmp(Cmp(dev, bnd), {-1, 0})>>
                      ELSE \* (hedges carry no notional; a FixedIncomeSecurity without the fixed-income
                           \* flag is allocated capital although its notional is its position)
                           <<"C17.rebalance_target", k, "skip">>]

Poisoned(C, s) == \E n \in Nodes(C) : IsOvf(s.cash[n]) \/ IsOvf(s.pos[n]) \/ IsOvf(s.sval[n])

Knowns(cl) == {<<cl[i][3], cl[i][1], cl[i][2]>> : i \in {j \in 1..Len(cl) : cl[j][3] \notin {"ok", "fail", "skip"}}}
Names(cl, v) == {<<cl[i][1], cl[i][2]>> : i \in {j \in 1..Len(cl) : cl[j][3] = v}}

Init ==
  /\ tid \in 1..Len(Traces)
  /\ l = 1
  /\ st = InitState(Traces[tid].C)
  /\ pchk = -1
  /\ settled = TRUE
  /\ done = FALSE
  /\ ent = NoEnt

Verdict(t, v, at, what, kf) == PrintT(<<"V", t, v, at, what, kf>>)

Next ==
  /\ ~done
  /\ LET tr == Traces[tid]
         C  == tr.C
     IN  IF l > Len(tr.events)
         THEN /\ Verdict(tr.tid, "OK", l - 1, {}, "none")
              /\ done' = TRUE /\ UNCHANGED <<tid, l, st, pchk, settled, ent>>
         ELSE
         LET ev == tr.events[l]
             r  == Apply(C, st, ev)
             kf == KnownFinding(C, st, ev, settled)
         IN  IF ev.exc # "none"
             THEN \* the trace ends at a raise: it must be an expected one
                  /\ IF MayRaise(C, st, ev, r.st)
                     THEN Verdict(tr.tid, "OK", l, {}, "none")
                     ELSE LET kr == IF kf # "none" THEN kf ELSE RaiseKF(C, st, ev)
                          IN  Verdict(tr.tid, IF kr = "none" THEN "FAIL" ELSE "KNOWN", l,
                                      {<<"C10.noraise", ev.node>>}, kr)
                  /\ done' = TRUE /\ UNCHANGED <<tid, l, st, pchk, settled, ent>>
             ELSE IF Poisoned(C, r.st)
             THEN /\ Verdict(tr.tid, "SKIP", l, {}, "none")
                  /\ done' = TRUE /\ UNCHANGED <<tid, l, st, pchk, settled, ent>>
             ELSE
             LET cl0 == Judge(C, st, ev, r, pchk)
                 cl1 == IF ExpectRaise(C, st, ev, r.st)
                        THEN Append(cl0, <<"C10.mustraise", ev.node, "fail">>) ELSE cl0
                 cl  == IF ev.op = "algo_exit" /\ ev.algo = "Rebalance" /\ ent.active /\ ent.node = ev.node
                        THEN cl1 \o C06Clauses(C, st, ent) \o C17Clauses(C, st, ent) ELSE cl1
                 fails == Names(cl, "fail")
             IN  IF fails # {}
                 THEN /\ Verdict(tr.tid, IF kf = "none" THEN "FAIL" ELSE "KNOWN", l, fails, kf)
                      /\ IF IOEnv.TRACE_DEBUG = "1"
                         THEN PrintT(<<"D", tr.tid, l, [op |-> ev.op, node |-> ev.node, child |-> ev.child,
                                 a |-> ev.a, b |-> ev.b, upd |-> ev.upd,
                                 pre_cash |-> st.cash, pre_pos |-> st.pos, pre_sval |-> st.sval,
                                 pre_swgt |-> st.swgt, pre_fresh |-> st.fresh,
                                 post_cash |-> r.st.cash, post_pos |-> r.st.pos, post_fee |-> r.st.fee,
                                 post_flow |-> r.st.flow, post_outl |-> r.st.outl,
                                 post_val |-> [n \in Nodes(C) |-> Val(C, r.st, n)],
                                 obs_cash |-> ev.cash, obs_val |-> ev.val, obs_ratio |-> ev.ratio,
                                 exp_ratio |-> IdxRatio(C, r.st, Root),
                                 chk |-> r.chk]>>)
                         ELSE TRUE
                      /\ done' = TRUE /\ UNCHANGED <<tid, l, st, pchk, settled, ent>>
                 ELSE /\ st' = r.st
                      /\ l' = l + 1
                      /\ pchk' = IF ev.fresh THEN ev.chknow ELSE pchk
                      /\ ent' = IF ev.op = "algo_enter" /\ ev.algo = "Rebalance" /\ ev.hasw
                                THEN [active |-> TRUE, node |-> ev.node,
                                      val |-> IF st.fresh THEN st.sval[ev.node] ELSE Val(C, st, ev.node),
                                      w |-> ev.w, cash |-> ev.wcash, cost |-> CostSoFar(C, st),
                                      notl |-> ev.wnotl,
                                      snotl |-> IF st.fresh THEN st.snotl[ev.node] ELSE Notl(C, st, ev.node)]
                                ELSE IF ev.op = "algo_exit" /\ ev.algo = "Rebalance" THEN NoEnt ELSE ent
                      /\ settled' = IF ev.op \in {"update", "read"} THEN TRUE
                                    ELSE IF ev.op = "flatten" THEN FALSE
                                    ELSE IF ev.upd THEN FALSE ELSE settled
                      /\ IF Names(cl, "skip") = {} THEN TRUE
                         ELSE PrintT(<<"S", tr.tid, l, Names(cl, "skip")>>)
                      /\ IF Knowns(cl) = {} THEN TRUE
                         ELSE PrintT(<<"K", tr.tid, l, Knowns(cl)>>)
                      /\ UNCHANGED <<tid, done>>

Spec == Init /\ [][Next]_vars
=============================================================================
