---------------------------- MODULE Trace_BtImpl ----------------------------
(***************************************************************************)
(* Conformance of the real objects' private state with the implementation- *)
(* shaped model BtImpl: after every recorded outermost call the fields     *)
(* _capital, _value, _weight, _price, _last_value, _last_price,            *)
(* _net_flows, _last_fee, _bidoffer_paid, _bidoffer, _position, _last_pos, *)
(* _needupdate, _outlay, now, root.stale, root.bankrupt and every recorded *)
(* row of every node must be what the model computes from the same call.   *)
(* This is what lets the exhaustive results of MC_BtImpl (the lazy update  *)
(* machinery refines the ledger) speak about the code.  A difference is    *)
(* "DRIFT": the code no longer follows the model - not by itself a         *)
(* violation of a property (the observable clauses of Trace_BtAbs decide   *)
(* that), but the design-level results no longer transfer.                 *)
(***************************************************************************)
EXTENDS BtImpl, Json, IOUtils, TLCExt

Doc    == JsonDeserialize(IOEnv.TRACE_FILE)
Traces == Doc.traces

VARIABLES tid, l, im, done
vars == <<tid, l, im, done>>

ImplApply(C, i0, ev) ==
  LET i == [i0 EXCEPT !.tr = ev.trades, !.auto = FALSE]
  IN  CASE ev.op = "adjust"    -> ImplAdjust(i, ev.node, ev.a, ev.upd, ev.flow, ev.b)
        [] ev.op = "update"    -> ImplUpdate(C, i, ev.date)
        [] ev.op = "read"      -> ImplRead(C, i)
        [] ev.op = "allocate"  -> NodeAlloc(C, i, ev.node, ev.a, ev.upd)
        [] ev.op = "transact"  -> SecTransact(C, i, ev.node, ev.a, ev.upd, TRUE, ev.b)
        [] ev.op = "rebalance" -> ImplRebalance(C, i, ev.node, ev.a, ev.child, ev.b, ev.upd)
        [] ev.op = "close"     -> ImplClose(C, i, ev.node, ev.child, ev.upd)
        [] ev.op = "flatten"   -> ImplFlatten(C, i, ev.node)
        [] OTHER               -> i

\* one comparison: <<field, node, verdict>>
Cl(name, n, obs, exact, D) == <<name, n, ChkEq(obs, exact, D)>>
ClB(name, n, obs, exact) == <<name, n, ChkBool(obs = exact)>>

Compare(C, m, o) ==
  LET D == C.D  DW == C.DW
      per(n) ==
        IF IsStrat(C, n)
        THEN << ClB("now", n, o.now[n], m.now[n]),
                Cl("cap", n, o.cap[n], m.cap[n], D), Cl("val", n, o.val[n], m.val[n], D),
                Cl("ntl", n, o.ntl[n], m.ntl[n], D),
                Cl("lval", n, o.lval[n], m.lval[n], D), Cl("nfl", n, o.nfl[n], m.nfl[n], D),
                Cl("lfee", n, o.lfee[n], m.lfee[n], D),
                IF C.bidoffer THEN Cl("bop", n, o.bop[n], m.bop[n], D) ELSE <<"bop", n, "ok">>,
                IF n = Root THEN Cl("prc", n, o.prc[n], m.prc[n], DW) ELSE Cl("wgt", n, o.wgt[n], m.wgt[n], DW),
                IF n = Root THEN Cl("lprc", n, o.lprc[n], m.lprc[n], DW) ELSE <<"lprc", n, "ok">> >>
        ELSE << ClB("now", n, o.now[n], m.now[n]), ClB("need", n, o.need[n], m.need[n]),
                Cl("pos", n, o.pos[n], m.pos[n], D), Cl("lpos", n, o.lpos[n], m.lpos[n], D),
                Cl("val", n, o.val[n], m.val[n], D), Cl("wgt", n, o.wgt[n], m.wgt[n], DW),
                Cl("prc", n, o.prc[n], m.prc[n], D), Cl("out", n, o.out[n], m.out[n], D),
                Cl("bop", n, o.bop[n], m.bop[n], D), Cl("bo", n, o.bo[n], m.bo[n], D) >>
      rows(n) ==
        LET ks == IF IsStrat(C, n)
                  THEN IF n = Root THEN <<"value", "price", "cash", "fees", "flows", "bop">>
                       ELSE <<"value", "cash", "fees", "flows", "bop">>
                  ELSE <<"value", "pos", "outl", "bop">>
        IN  [j \in 1..(Len(ks) * C.T) |->
               LET k == ks[((j - 1) \div C.T) + 1]  t == ((j - 1) % C.T) + 1
               IN  IF k = "bop" /\ ~C.bidoffer THEN <<"row.bop", n, "ok">>
                   ELSE <<"row." \o k, n,
                          ChkEq(o.rows[k][n][t], m.rows[k][n][t], IF k = "price" THEN DW ELSE D)>>]
      RECURSIVE Cat(_)
      Cat(n) == IF n > C.N THEN <<>> ELSE per(n) \o rows(n) \o Cat(n + 1)
  IN  <<ClB("stale", 1, o.stale, m.stale), ClB("bankrupt", 1, o.bankrupt, m.bankrupt)>> \o Cat(1)

Names(cl, v) == {<<cl[i][1], cl[i][2]>> : i \in {j \in 1..Len(cl) : cl[j][3] = v}}
Verdict(t, v, at, what, nskip) == PrintT(<<"V", t, v, at, what, nskip>>)

Init ==
  /\ tid \in 1..Len(Traces)
  /\ l = 1
  /\ im = ImplInit(Traces[tid].C)
  /\ done = FALSE

Next ==
  /\ ~done
  /\ LET tr == Traces[tid]
         C  == tr.C
     IN  IF l > Len(tr.events)
         THEN /\ Verdict(tr.tid, "OK", l - 1, {}, 0)
              /\ done' = TRUE /\ UNCHANGED <<tid, l, im>>
         ELSE
         LET ev == tr.events[l] IN
         IF ev.exc # "none"
         THEN \* a raise leaves the objects wherever the exception caught them
              /\ Verdict(tr.tid, "OK", l - 1, {}, 0)
              /\ done' = TRUE /\ UNCHANGED <<tid, l, im>>
         ELSE
         LET m  == ImplApply(C, im, ev)
             cl == Compare(C, m, ev.impl)
             bad == Names(cl, "fail")
         IN  IF ImplPoisoned(C, m)
             THEN /\ Verdict(tr.tid, "SKIP", l, {}, 0)
                  /\ done' = TRUE /\ UNCHANGED <<tid, l, im>>
             ELSE IF bad # {}
             THEN /\ Verdict(tr.tid, "DRIFT", l, bad, Cardinality(Names(cl, "skip")))
                  /\ IF IOEnv.TRACE_DEBUG = "1"
                     THEN PrintT(<<"D", tr.tid, l, [stale |-> m.stale, now |-> m.now, cap |-> m.cap, val |-> m.val,
                                   wgt |-> m.wgt, prc |-> m.prc, lval |-> m.lval, nfl |-> m.nfl, bop |-> m.bop,
                                   pos |-> m.pos, lpos |-> m.lpos, need |-> m.need, out |-> m.out,
                                   rowbop |-> m.rows["bop"], rowoutl |-> m.rows["outl"], rowval |-> m.rows["value"],
                                   pre_need |-> im.need, pre_stale |-> im.stale, pre_bop |-> im.bop]>>)
                     ELSE TRUE
                  /\ done' = TRUE /\ UNCHANGED <<tid, l, im>>
             ELSE /\ im' = IF ev.settle THEN ImplRead(C, m) ELSE m
                  /\ l' = l + 1
                  /\ UNCHANGED <<tid, done>>

Spec == Init /\ [][Next]_vars
=============================================================================
