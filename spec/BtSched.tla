------------------------------ MODULE BtSched ------------------------------
(***************************************************************************)
(* C12: calendar and counting schedulers as state machines over a date     *)
(* index.  A timestamp is <<day, sec>> (days since 1970-01-01, seconds     *)
(* within the day); idx is the sequence of timestamps of the data as the   *)
(* Backtest sees it: position 1 is the synthetic pre-start row.            *)
(***************************************************************************)
EXTENDS BtNum

Day(ts) == ts[1]

\* the period a timestamp belongs to, per scheduler kind
Period(kind, ts) ==
  CASE kind = "RunDaily"     -> <<Day(ts)>>
    [] kind = "RunWeekly"    -> <<IsoYear(Day(ts)), IsoWeek(Day(ts))>>
    [] kind = "RunMonthly"   -> <<YearOf(Day(ts)), MonthOf(Day(ts))>>
    [] kind = "RunQuarterly" -> <<YearOf(Day(ts)), QuarterOf(Day(ts))>>
    [] kind = "RunYearly"    -> <<YearOf(Day(ts))>>
    [] OTHER                 -> <<0>>

\* the pinned RunWeekly compares (calendar year, ISO week): known finding F2
PinnedWeekly(ts) == <<YearOf(Day(ts)), IsoWeek(Day(ts))>>

\* position of timestamp now in idx (0: not a date of the data)
PosOf(idx, now) == LET S == {i \in 1..Len(idx) : idx[i] = now}
                   IN  IF S = {} THEN 0 ELSE CHOOSE i \in S : TRUE

\* should a period scheduler return True when called at position i of idx?
PeriodFire(kind, flags, idx, i) ==
  IF i = 0 THEN FALSE                       \* a date outside the data
  ELSE IF i = 1 THEN FALSE                  \* the synthetic pre-start row
  ELSE IF i = 2 THEN flags.first            \* the first date, when so configured
  ELSE IF i = Len(idx) THEN flags.last      \* the last date, when so configured
  ELSE Period(kind, idx[i]) # Period(kind, idx[IF flags.eop THEN i + 1 ELSE i - 1])

\* the F2 signature: the property and the pinned comparison disagree
KF_Weekly(kind, flags, idx, i) ==
  /\ kind = "RunWeekly" /\ i > 2 /\ i < Len(idx)
  /\ LET j == IF flags.eop THEN i + 1 ELSE i - 1
     IN  (Period(kind, idx[i]) # Period(kind, idx[j])) # (PinnedWeekly(idx[i]) # PinnedWeekly(idx[j]))

(***************************************************************************)
(* Counting / date schedulers: state machines stepped once per call.       *)
(* A call is <<pos, ts>>: position in idx (0 = outside) and the timestamp. *)
(***************************************************************************)
InitCount(kind, p) ==
  CASE kind = "RunOnce"          -> [done |-> FALSE]
    [] kind = "RunAfterDays"     -> [left |-> p.days]
    [] kind = "RunEveryNPeriods" -> [k |-> 0, last |-> <<-1, -1>>]   \* k: distinct dates seen
    [] OTHER                     -> [x |-> 0]

\* returns [st, fire]
StepCount(kind, p, s, ts) ==
  CASE kind = "RunOnce" -> [st |-> [done |-> TRUE], fire |-> ~s.done]
    [] kind = "RunAfterDays" ->
         IF s.left > 0 THEN [st |-> [left |-> s.left - 1], fire |-> FALSE]
         ELSE [st |-> s, fire |-> TRUE]
    [] kind = "RunEveryNPeriods" ->
         \* once per distinct date: a repeated call on the same date never fires;
         \* the k-th distinct date fires iff k > offset and (k - offset - 1) % n = 0
         IF s.last = ts THEN [st |-> s, fire |-> FALSE]
         ELSE LET k == s.k + 1
              IN  [st |-> [k |-> k, last |-> ts],
                   fire |-> k > p.offset /\ ((k - p.offset - 1) % p.n = 0)]
    [] kind = "RunOnDate"    -> [st |-> s, fire |-> \E i \in 1..Len(p.dates) : p.dates[i] = ts]
    [] kind = "RunAfterDate" -> [st |-> s, fire |-> ts[1] > p.date[1] \/ (ts[1] = p.date[1] /\ ts[2] > p.date[2])]
    [] OTHER -> [st |-> s, fire |-> FALSE]

IsPeriodKind(kind) == kind \in {"RunDaily", "RunWeekly", "RunMonthly", "RunQuarterly", "RunYearly"}
=============================================================================
