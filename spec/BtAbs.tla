------------------------------ MODULE BtAbs ------------------------------
(***************************************************************************)
(* The abstract ledger of a bt tree: what the properties C01-C03, C05-C08, *)
(* C16, C17 say a tree of strategies and securities does.                  *)
(*                                                                         *)
(* A configuration C (a record; a constant of MC_BtAbs, the header of a    *)
(* recorded trace for Trace_BtAbs) fixes the tree and the input tables:    *)
(*   N            number of nodes, node 1 is the root                      *)
(*   kind[n]      "strat" | "sec" | "fisec" | "cpsec" | "hedge" | "cphedge"*)
(*   par[n]       parent (par[1] = 1), kids[n] children in creation order  *)
(*   mult[n]      multiplier (rational)                                    *)
(*   fi[n]        node's fixed_income flag                                 *)
(*   T            number of dates 1..T (t = 0: before the first update)    *)
(*   px[n][t], spread[n][t], coupon[n][t], costl[n][t], costs[n][t]        *)
(*                input tables (rationals or NaN); <<>> for strategies     *)
(*   comm[n]      commission model of strategy n: [k, a, b]                *)
(*   integer      whole-unit positions, bidoffer: bid/offer data supplied  *)
(*   D            decoding lattice bound of the trace                      *)
(*                                                                         *)
(* The state is one record st, so that every public operation of bt is a   *)
(* pure operator st -> st; the model-checking spec, the simulation configs *)
(* and the trace spec all use the same operators.                          *)
(***************************************************************************)
EXTENDS BtNum

Nodes(C)      == 1..C.N
IsStrat(C, n) == C.kind[n] = "strat"
IsSec(C, n)   == C.kind[n] # "strat"
IsCpn(C, n)   == C.kind[n] \in {"cpsec", "cphedge"}
Root          == 1
SecSeq(C)   == SelectSeq([i \in 1..C.N |-> i], LAMBDA n : IsSec(C, n))
StratSeq(C) == SelectSeq([i \in 1..C.N |-> i], LAMBDA n : IsStrat(C, n))
RECURSIVE InSubtree(_, _, _)
InSubtree(C, n, s) == n = s \/ (n # Root /\ InSubtree(C, C.par[n], s))

Px(C, x, t)  == IF t = 0 THEN NaN ELSE C.px[x][t]
Spr(C, x, t) == IF t = 0 \/ ~C.bidoffer THEN Zero ELSE C.spread[x][t]

(***************************************************************************)
(* Commission models (the family used by generators; all non-decreasing in *)
(* size).  p is the unit price times the multiplier, as the code passes it.*)
(***************************************************************************)
Comm(m, q, p) ==
  IF IsZero(q) THEN Zero ELSE
  CASE m.k = "zero" -> Zero
    [] m.k = "fix"  -> m.a
    [] m.k = "unit" -> RMul(m.a, RAbs(q))
    [] m.k = "tier" -> RMax(m.a, RMul(m.b, RAbs(q)))
    [] m.k = "prop" -> RMul(m.a, RMul(RAbs(q), p))
    \* schedules that treat the two sides of a trade differently: a levy on sales, a duty on purchases
    [] m.k = "sell" -> IF RSign(q) = -1 THEN RMul(m.a, RMul(RAbs(q), p)) ELSE Zero
    [] m.k = "buy"  -> IF RSign(q) = 1 THEN RMul(m.a, RMul(RAbs(q), p)) ELSE Zero
    [] OTHER        -> Zero

(***************************************************************************)
(* Initial state                                                           *)
(***************************************************************************)
ZeroFn(C) == [n \in Nodes(C) |-> Zero]
InitState(C) ==
  [t |-> 0, cash |-> ZeroFn(C), pos |-> ZeroFn(C),
   flow |-> ZeroFn(C), fee |-> ZeroFn(C), nonflow |-> ZeroFn(C),
   outl |-> ZeroFn(C), bop |-> ZeroFn(C), accr |-> ZeroFn(C),
   cpn |-> ZeroFn(C), hc |-> ZeroFn(C),
   pval |-> ZeroFn(C), pnotl |-> ZeroFn(C), ppos |-> ZeroFn(C), swept |-> ZeroFn(C),
   pcash |-> ZeroFn(C),
   bankrupt |-> FALSE,
   sval |-> ZeroFn(C), snotl |-> ZeroFn(C),
   swgt |-> [n \in Nodes(C) |-> IF IsStrat(C, n) THEN One ELSE Zero],
   fresh |-> TRUE]

(***************************************************************************)
(* Derived quantities: never stored, so the balance-sheet identity is a    *)
(* statement about the operators' outputs.                                 *)
(***************************************************************************)
SecVal(C, st, x) ==
  IF IsZero(st.pos[x]) THEN Zero
  ELSE RMul(RMul(st.pos[x], Px(C, x, st.t)), C.mult[x])

RECURSIVE Val(_, _, _)
Val(C, st, n) ==
  IF IsSec(C, n) THEN SecVal(C, st, n)
  ELSE RAdd(st.cash[n], RSumSeq([i \in 1..Len(C.kids[n]) |-> Val(C, st, C.kids[n][i])]))

RECURSIVE Notl(_, _, _)
Notl(C, st, n) ==
  CASE C.kind[n] = "sec"                  -> SecVal(C, st, n)
    [] C.kind[n] \in {"fisec", "cpsec"}   -> st.pos[n]
    [] C.kind[n] \in {"hedge", "cphedge"} -> Zero
    [] OTHER -> RSumSeq([i \in 1..Len(C.kids[n]) |-> RAbs(Notl(C, st, C.kids[n][i]))])

Wgt(C, st, n) ==
  IF n = Root THEN One
  ELSE LET p == C.par[n]
           b == IF C.fi[p] THEN Notl(C, st, p) ELSE Val(C, st, p)
           v == IF C.fi[p] THEN Notl(C, st, n) ELSE Val(C, st, n)
       IN  IF Bad(b) THEN b ELSE IF IsZero(b) THEN Zero ELSE RDiv(v, b)

\* the return base of strategy s on the current date
RetBase(st, s) == RAdd(st.pval[s], st.flow[s])
\* market-value index: price(now) / price(previous date)
IdxRatio(C, st, s) ==
  LET b == RetBase(st, s) v == Val(C, st, s)
  IN  IF Bad(b) THEN b ELSE IF IsZero(b) THEN (IF IsZero(v) THEN One ELSE NaN) ELSE RDiv(v, b)
\* fixed-income index: price(now) - price(previous date)
IdxDiff(C, st, s) ==
  LET pnl == RSub(Val(C, st, s), RetBase(st, s))
      nb  == IF ~IsZero(st.pnotl[s]) THEN st.pnotl[s] ELSE Notl(C, st, s)
  IN  IF Bad(nb) THEN nb ELSE
      IF IsZero(nb) THEN (IF IsZero(pnl) THEN Zero ELSE NaN)
      ELSE RDiv(RMul(R(100), pnl), nb)
\* "return on a zero base" (C10): the index of s cannot be computed
ZeroBase(C, st, s) ==
  IF C.fi[s] THEN IsNaN(IdxDiff(C, st, s)) ELSE IsNaN(IdxRatio(C, st, s))

(***************************************************************************)
(* Costs of a trade of q units of x at the current date.                   *)
(***************************************************************************)
UnitPx(C, st, x)  == RMul(Px(C, x, st.t), C.mult[x])
HalfSpread(C, st, x, q) ==
  RMul(RMul(RAbs(q), RDiv(Spr(C, x, st.t), R(2))), C.mult[x])
FeeOf(C, st, x, q) == Comm(C.comm[C.par[x]], q, UnitPx(C, st, x))
Cost(C, st, x, q) ==
  IF IsZero(q) THEN Zero
  ELSE RAdd(RAdd(RMul(q, UnitPx(C, st, x)), HalfSpread(C, st, x, q)), FeeOf(C, st, x, q))

(***************************************************************************)
(* C05 - the sizing rule as a predicate on the traded quantity q.          *)
(*   derived = TRUE: the amount was itself computed in floating point (a   *)
(*   weight-driven budget), so either side of an exact tie is accepted.    *)
(* Result: a clause verdict ("ok", "fail", "skip").                        *)
(***************************************************************************)
AllocSecChk(C, st, x, a, q, derived) ==
  IF Bad(a) \/ Bad(q) THEN "skip" ELSE
  IF IsZero(a) THEN ChkBool(IsZero(q)) ELSE
  IF RAdd(a, SecVal(C, st, x)) = Zero /\ (q = RNeg(st.pos[x]) \/ ~derived)
  THEN ChkBool(q = RNeg(st.pos[x])) ELSE
  \* (a derived budget that equals minus the value only in exact arithmetic may
  \* miss the close-out by an ulp: then the ordinary rule applies - known finding K4)
  IF C.integer THEN
     IF ~IsInt(q) THEN "fail" ELSE
     LET c0 == Cmp(Cost(C, st, x, q), a)
         c1 == Cmp(Cost(C, st, x, RAdd(q, One)), a)
     IN  IF c0 = 2 \/ c1 = 2 THEN "skip"
         ELSE IF derived THEN ChkBool(c0 \in {-1, 0} /\ c1 \in {0, 1})
         ELSE ChkBool(c0 \in {-1, 0} /\ c1 = 1)
  ELSE ChkEq(Cost(C, st, x, q), a, C.D)

\* The unique quantity of the rule in whole-unit mode (monotone cost): used by
\* the model-checking configs instead of enumerating a quantity range.
RECURSIVE DownTo(_, _, _, _, _)
DownTo(C, st, x, a, q) ==
  IF Cmp(Cost(C, st, x, R(q)), a) \in {-1, 0, 2} \/ q < -100000 THEN q ELSE DownTo(C, st, x, a, q - 1)
RECURSIVE UpTo(_, _, _, _, _)
UpTo(C, st, x, a, q) ==
  IF Cmp(Cost(C, st, x, R(q + 1)), a) \in {1, 2} \/ q > 100000 THEN q ELSE UpTo(C, st, x, a, q + 1)
MaxQ(C, st, x, a) ==
  IF IsZero(a) THEN Zero ELSE
  IF RAdd(a, SecVal(C, st, x)) = Zero THEN RNeg(st.pos[x]) ELSE
  IF C.integer THEN
     \* start the search at the quantity that fits without commission (the half
     \* spread moves the unit cost against the trade)
     LET hs == RMul(RDiv(Spr(C, x, st.t), R(2)), C.mult[x])
         ue == IF RSign(a) > 0 THEN RAdd(UnitPx(C, st, x), hs) ELSE RSub(UnitPx(C, st, x), hs)
         q0 == IF Bad(ue) \/ RSign(ue) # 1 THEN RFloor(RDiv(a, UnitPx(C, st, x))) ELSE RFloor(RDiv(a, ue))
     IN  IF Cmp(Cost(C, st, x, R(q0)), a) = 2 THEN OVF    \* outside 32-bit rationals
         ELSE R(UpTo(C, st, x, a, DownTo(C, st, x, a, q0)))
  ELSE \* fractional, costs linear in |q|: a = q*P*m + |q|*S/2*m (zero commission only)
     LET s == IF RSign(a) > 0 THEN One ELSE R(-1)
     IN  RDiv(a, RAdd(UnitPx(C, st, x),
                      RMul(s, RMul(RDiv(Spr(C, x, st.t), R(2)), C.mult[x]))))

(***************************************************************************)
(* Primitive state changes                                                 *)
(***************************************************************************)
\* one executed trade of q units (custom price cp, NaN = none): C07
TradeSec(C, st, x, q, cp) ==
  IF IsZero(q) THEN st ELSE
  LET p   == C.par[x]
      P   == Px(C, x, st.t)
      m   == C.mult[x]
      bo  == IF IsNaN(cp) THEN HalfSpread(C, st, x, q)
             ELSE RMul(RMul(q, RSub(cp, P)), m)
      out == RAdd(RMul(RMul(q, P), m), bo)
      fee == Comm(C.comm[p], q, IF IsNaN(cp) THEN RMul(P, m) ELSE RMul(cp, m))
  IN  [st EXCEPT !.pos[x]  = RAdd(@, q),
                 !.outl[x] = RAdd(@, out),
                 !.bop[x]  = RAdd(@, bo),
                 !.cash[p] = RSub(RSub(@, out), fee),
                 !.fee[p]  = RAdd(@, fee)]

AdjustSt(st, s, a, isflow, fee) ==
  [st EXCEPT !.cash[s]    = RAdd(@, a),
             !.fee[s]     = RAdd(@, fee),
             !.flow[s]    = IF isflow THEN RAdd(@, a) ELSE @,
             !.nonflow[s] = IF isflow THEN @ ELSE RAdd(@, a)]

\* capital moves from the parent to sub-strategy s: flow for s, non-flow for
\* the parent, invisible to the ghost "explicit non-flow" account (C02)
TransferSt(C, st, s, a) ==
  IF s = Root THEN st
  ELSE [st EXCEPT !.cash[C.par[s]] = RSub(@, a),
                  !.cash[s]        = RAdd(@, a),
                  !.flow[s]        = RAdd(@, a)]

(***************************************************************************)
(* Operations thread a record r = [st, chk, tr, auto]:                     *)
(*   st    the ledger state                                                *)
(*   chk   accumulated C05 verdicts <<name, verdict, node, amount, q,     *)
(*         value and position of the security when it was traded>>        *)
(*   tr    the trades the log says this operation executed, in order, each *)
(*         <<node, q>> - what the property leaves open (the quantity an    *)
(*         allocation trades) is bound from here and checked with          *)
(*         AllocSecChk                                                     *)
(*   auto  TRUE in the model-checking spec: no log, quantities are MaxQ    *)
(***************************************************************************)
R0(st)      == [st |-> st, chk |-> <<>>, tr |-> <<>>, auto |-> TRUE]
RT(st, trs) == [st |-> st, chk |-> <<>>, tr |-> trs, auto |-> FALSE]

\* the first not yet consumed logged trade of x (the order in which one operation
\* visits independent securities is left open: it follows child creation order)
IdxOf(r, x) == LET S == {i \in 1..Len(r.tr) : r.tr[i][1] = x}
               IN  IF S = {} THEN 0 ELSE CHOOSE i \in S : \A j \in S : i <= j
HeadIs(r, x) == IdxOf(r, x) # 0
HeadQ(r, x)  == r.tr[IdxOf(r, x)][2]
Pop(r, x) == LET k == IdxOf(r, x)
             IN  [r EXCEPT !.tr = [i \in 1..(Len(@) - 1) |-> IF i < k THEN @[i] ELSE @[i + 1]]]

RECURSIVE FoldKids(_, _, _, _, _, _)
RECURSIVE AllocNode(_, _, _, _, _)
\* allocate amount a to node n; budgets below n follow the *snapshot* weights
AllocNode(C, r, n, a, derived) ==
  IF IsSec(C, n) THEN
     IF Bad(a) THEN  \* the amount is not representable: follow the log, judge nothing
        LET q  == IF ~r.auto /\ HeadIs(r, n) THEN HeadQ(r, n) ELSE Zero
            r1 == IF ~r.auto /\ HeadIs(r, n) THEN Pop(r, n) ELSE r
        IN  [r1 EXCEPT !.st = TradeSec(C, r.st, n, q, NaN),
                       !.chk = Append(@, <<"C05.sizing", "skip", n, a, q, SecVal(C, r.st, n), r.st.pos[n]>>)] ELSE
     IF IsZero(a) THEN           \* a zero amount does nothing ...
        IF ~r.auto /\ derived /\ HeadIs(r, n)
        THEN \* ... but a computed amount that is zero only in exact arithmetic is
             \* not recognised as zero by the code (known finding K8)
             [Pop(r, n) EXCEPT !.st  = TradeSec(C, r.st, n, HeadQ(r, n), NaN),
                               !.chk = Append(@, <<"C05.sizing", "K8", n, a, HeadQ(r, n), SecVal(C, r.st, n), r.st.pos[n]>>)]
        ELSE r
     ELSE
     LET q  == IF r.auto THEN MaxQ(C, r.st, n, a)
               ELSE IF HeadIs(r, n) THEN HeadQ(r, n) ELSE Zero
         r1 == IF ~r.auto /\ HeadIs(r, n) THEN Pop(r, n) ELSE r
     IN  [r1 EXCEPT !.st  = TradeSec(C, r.st, n, q, NaN),
                    !.chk = Append(@, <<"C05.sizing", AllocSecChk(C, r.st, n, a, q, derived), n, a, q,
                                          SecVal(C, r.st, n), r.st.pos[n]>>)]
  ELSE
     LET r1 == [r EXCEPT !.st = TransferSt(C, r.st, n, a)]
     IN  FoldKids(C, r1, C.kids[n], 1, a, 0)
\* an explicit trade of q units of x (transact): the log must show exactly it
\* a zero or NaN quantity is "nothing to do" (core.py: `if is_zero(q) or np.isnan(q): return`)
ExplicitTrade(C, r, x, q, cp) ==
  IF IsZero(q) \/ IsNaN(q) THEN r ELSE
  LET ok == r.auto \/ (HeadIs(r, x) /\ HeadQ(r, x) = q)
      r1 == IF ~r.auto /\ HeadIs(r, x) THEN Pop(r, x) ELSE r
  IN  [r1 EXCEPT !.st  = TradeSec(C, r.st, x, q, cp),
                 !.chk = Append(@, <<"C07.qty", IF Bad(q) THEN "skip" ELSE ChkBool(ok), x, q, q,
                                          SecVal(C, r.st, x), r.st.pos[x]>>)]
\* mode 0: allocate a * snapshot weight;  mode 1: transact a * snapshot weight
FoldKids(C, r, ks, i, a, mode) ==
  IF i > Len(ks) THEN r
  ELSE LET k == ks[i]
           b == RMul(a, r.st.swgt[k])
           r2 == IF mode = 0 THEN AllocNode(C, r, k, b, TRUE)
                 ELSE IF IsSec(C, k) THEN ExplicitTrade(C, r, k, b, NaN)
                 ELSE FoldKids(C, r, C.kids[k], 1, b, 1)
       IN  FoldKids(C, r2, ks, i + 1, a, mode)

\* transact notional q on node n (fixed-income push-down uses snapshot weights)
TransactNode(C, r, n, q, cp) ==
  IF IsSec(C, n) THEN ExplicitTrade(C, r, n, q, cp)
  ELSE FoldKids(C, r, C.kids[n], 1, q, 1)

(***************************************************************************)
(* Refresh = what an update on the current date makes observable: the      *)
(* snapshot becomes the derived state; a market-value root whose value is  *)
(* negative is declared bankrupt and the whole tree is liquidated (C16).   *)
(***************************************************************************)
Snap(C, st) ==
  [st EXCEPT !.sval  = [n \in Nodes(C) |-> Val(C, st, n)],
             !.snotl = [n \in Nodes(C) |-> Notl(C, st, n)],
             !.swgt  = [n \in Nodes(C) |-> Wgt(C, st, n)],
             !.cpn   = [n \in Nodes(C) |-> IF IsCpn(C, n) /\ st.t > 0 /\ ~IsZero(st.pos[n])
                                           THEN RMul(st.pos[n], C.coupon[n][st.t]) ELSE
                                           IF IsCpn(C, n) THEN Zero ELSE @[n]],
             !.hc    = [n \in Nodes(C) |->
                          IF ~IsCpn(C, n) \/ st.t = 0 THEN @[n]
                          ELSE IF RSign(st.pos[n]) = 1 /\ ~IsNaN(C.costl[n][st.t])
                               THEN RMul(st.pos[n], C.costl[n][st.t])
                          ELSE IF RSign(st.pos[n]) = -1 /\ ~IsNaN(C.costs[n][st.t])
                               THEN RMul(RNeg(st.pos[n]), C.costs[n][st.t])
                          ELSE Zero],
             !.fresh = TRUE]
Accrue(C, st) == [st EXCEPT !.accr = [n \in Nodes(C) |->
                     IF IsCpn(C, n) THEN RSub(st.cpn[n], st.hc[n]) ELSE @[n]]]

RECURSIVE FlattenKids(_, _, _, _)
\* close all child positions: every child whose (snapshot) value is non-zero is
\* allocated minus its value (a sub-strategy pushes that down by weights, which
\* closes each of its holdings); a sub-strategy worth exactly zero that still
\* holds offsetting positions has them closed in place (the shipped flatten
\* skips it: known finding K5)
FlattenKids(C, r, ks, i) ==
  IF i > Len(ks) THEN r
  ELSE LET k  == ks[i]
           v  == r.st.sval[k]
           r2 == IF ~IsZero(v) THEN AllocNode(C, r, k, RNeg(v), FALSE)
                 ELSE IF IsStrat(C, k) THEN FlattenKids(C, r, C.kids[k], 1)
                 ELSE r
       IN  FlattenKids(C, r2, ks, i + 1)
RECURSIVE FlattenKidsFI(_, _, _, _)
FlattenKidsFI(C, r, ks, i) ==
  IF i > Len(ks) THEN r
  ELSE LET k  == ks[i]
           r2 == IF IsStrat(C, k) \/ IsZero(r.st.pos[k]) THEN r
                 ELSE ExplicitTrade(C, r, k, RNeg(r.st.pos[k]), NaN)
       IN  FlattenKidsFI(C, r2, ks, i + 1)

\* (before the first update - t = 0 - nothing is ever flagged)
WouldBankrupt(C, st) == st.t > 0 /\ ~C.fi[Root] /\ ~st.bankrupt /\ RSign(Val(C, st, Root)) = -1

RefreshR(C, r) ==
  LET s1 == Accrue(C, Snap(C, r.st))
  IN  IF WouldBankrupt(C, s1)
      THEN LET r2 == FlattenKids(C, [r EXCEPT !.st = [s1 EXCEPT !.bankrupt = TRUE]],
                                 C.kids[Root], 1)
           IN  [r2 EXCEPT !.st = Accrue(C, Snap(C, r2.st))]
      ELSE [r EXCEPT !.st = s1]

\* date change t -> d: close the books of t, sweep accruals, open d
Advance(C, st, d) ==
  IF st.t = 0 THEN [st EXCEPT !.t = d]
  ELSE [st EXCEPT
     !.t       = d,
     !.pval    = [n \in Nodes(C) |-> IF IsStrat(C, n) THEN st.sval[n] ELSE @[n]],
     !.pnotl   = [n \in Nodes(C) |-> IF IsStrat(C, n) THEN st.snotl[n] ELSE @[n]],
     !.ppos    = st.pos,
     !.pcash   = st.cash,
     !.flow    = ZeroFn(C), !.fee = ZeroFn(C), !.nonflow = ZeroFn(C),
     !.outl    = ZeroFn(C), !.bop = ZeroFn(C),
     !.swept   = [n \in Nodes(C) |-> IF IsStrat(C, n)
                    THEN RSumSeq([i \in 1..Len(C.kids[n]) |->
                           IF IsSec(C, C.kids[n][i]) THEN st.accr[C.kids[n][i]] ELSE Zero])
                    ELSE Zero],
     !.cash    = [n \in Nodes(C) |-> IF IsStrat(C, n)
                    THEN RAdd(@[n], RSumSeq([i \in 1..Len(C.kids[n]) |->
                           IF IsSec(C, C.kids[n][i]) THEN st.accr[C.kids[n][i]] ELSE Zero]))
                    ELSE @[n]],
     !.accr    = ZeroFn(C)]

(***************************************************************************)
(* Public operations.  Each maps r to r.  upd = the update flag of the     *)
(* call: TRUE makes every later read fresh (the abstract semantics of the  *)
(* stale flag), FALSE leaves the snapshot in place (deferred batch).       *)
(***************************************************************************)
Finish(C, r, upd) ==
  IF upd THEN RefreshR(C, r) ELSE [r EXCEPT !.st = [r.st EXCEPT !.fresh = FALSE]]

AdjustOp(C, r, s, a, isflow, fee, upd) ==
  Finish(C, [r EXCEPT !.st = AdjustSt(r.st, s, a, isflow, fee)], upd)

\* (a date change books whatever is still pending on the old date first: what was
\* traded or adjusted with update=False belongs to the date it was done on)
UpdateOp(C, r, d) ==
  IF d = r.st.t THEN RefreshR(C, r)
  ELSE LET r0 == IF r.st.fresh \/ r.st.t = 0 THEN r ELSE RefreshR(C, r)
       IN  RefreshR(C, [r0 EXCEPT !.st = Advance(C, r0.st, d)])

AllocateOp(C, r, n, a, upd) == Finish(C, AllocNode(C, r, n, a, FALSE), upd)

TransactOp(C, r, n, q, cp, upd) == Finish(C, TransactNode(C, r, n, q, cp), upd)

\* the refreshed state in the middle of closing a sub-strategy child
CloseMid(C, r, c) ==
  RefreshR(C, IF C.fi[c] THEN FlattenKidsFI(C, r, C.kids[c], 1) ELSE FlattenKids(C, r, C.kids[c], 1))
CloseR(C, r, s, c) ==
  LET r1 == IF IsStrat(C, c) /\ Len(C.kids[c]) > 0 THEN CloseMid(C, r, c) ELSE r
  IN  IF C.fi[s]
      THEN IF IsSec(C, c) /\ ~IsZero(r1.st.pos[c])
           THEN TransactNode(C, r1, c, RNeg(r1.st.pos[c]), NaN) ELSE r1
      ELSE LET v == r1.st.sval[c]
           IN  IF IsZero(v) \/ Bad(v) THEN r1 ELSE AllocNode(C, r1, c, RNeg(v), FALSE)
CloseOp(C, r, s, c, upd) == Finish(C, CloseR(C, r, s, c), upd)

FlattenOp(C, r, s) ==
  RefreshR(C, IF C.fi[s] THEN FlattenKidsFI(C, r, C.kids[s], 1)
              ELSE FlattenKids(C, r, C.kids[s], 1))

\* rebalance child c of s to weight w of base (NaN: the strategy's own value /
\* notional).  The child ends at w * base: amount = w*base - current holding.
RebalanceAmount(C, st, s, w, c, base) ==
  LET b == IF IsNaN(base) THEN (IF C.fi[s] THEN st.snotl[s] ELSE st.sval[s]) ELSE base
  IN  IF C.fi[s] THEN RSub(RMul(w, b), RMul(st.swgt[c], st.snotl[s]))
      ELSE RSub(RMul(w, b), RMul(st.swgt[c], st.sval[s]))
\* the verdict on the rebalanced child itself speaks about the *amount* the
\* rebalance chose (C06), not about the sizing rule (C05, which is judged on
\* direct allocations and on push-downs)
\* (and when the child is a sub-strategy, how the amount is spread over the securities
\* below it - in proportion to their current weights, shorts included - is C06 as well)
Relabel(C, r0, r1, c) ==
  [r1 EXCEPT !.chk = [i \in 1..Len(@) |->
      IF i > Len(r0.chk) /\ @[i][1] = "C05.sizing" /\ @[i][3] = c
      THEN <<"C06.rebalance", @[i][2], @[i][3], @[i][4], @[i][5], @[i][6], @[i][7]>>
      ELSE IF i > Len(r0.chk) /\ @[i][1] = "C05.sizing" /\ IsStrat(C, c) /\ InSubtree(C, @[i][3], c)
      THEN <<"C06.pushdown", @[i][2], @[i][3], @[i][4], @[i][5], @[i][6], @[i][7]>>
      ELSE @[i]]]
RebalanceOp(C, r, s, w, c, base, upd) ==
  IF IsZero(w) THEN CloseOp(C, r, s, c, upd) ELSE
  LET amt == RebalanceAmount(C, r.st, s, w, c, base)
  IN  IF C.fi[s] /\ C.fi[c] THEN Finish(C, TransactNode(C, r, c, amt, NaN), upd)
      ELSE Finish(C, Relabel(C, r, AllocNode(C, r, c, amt, TRUE), c), upd)

(***************************************************************************)
(* C10 - the enumerated ill-formed situations, as predicates on (state,    *)
(* operation).  An operation raises iff one of them holds.                 *)
(***************************************************************************)
PriceUnusable(C, st, x) == IsNaN(Px(C, x, st.t)) \/ IsZero(Px(C, x, st.t))
\* open position with a missing price / coupon at date d
OpenOnMissing(C, st, d) ==
  \E x \in Nodes(C) : IsSec(C, x) /\ ~IsZero(st.pos[x]) /\
       (IsNaN(Px(C, x, d)) \/ (IsCpn(C, x) /\ IsNaN(C.coupon[x][d])))

(***************************************************************************)
(* Properties, as state predicates over (C, st) / pairs of states.         *)
(***************************************************************************)
Secs(C)   == {n \in Nodes(C) : IsSec(C, n)}
Strats(C) == {n \in Nodes(C) : IsStrat(C, n)}
SumAll(f, S) == RSumSeq([i \in 1..Len(S) |-> f[S[i]]])

\* C01 on a fresh state: the snapshot every getter returns is the derived state
C01_Snapshot(C, st) ==
  (st.fresh /\ st.t > 0) => /\ \A n \in Nodes(C) : st.sval[n] = Val(C, st, n)
              /\ \A n \in Nodes(C) : st.swgt[n] = Wgt(C, st, n)
\* weights plus cash fraction sum to one under every strategy with value # 0
C01_WeightsSum(C, st) ==
  st.fresh => \A s \in Strats(C) : (~C.fi[s] /\ ~Bad(st.sval[s]) /\ ~IsZero(st.sval[s])) =>
      LET tot == RAdd(RDiv(st.cash[s], st.sval[s]),
                      RSumSeq([i \in 1..Len(C.kids[s]) |-> st.swgt[C.kids[s][i]]]))
      IN  Bad(tot) \/ tot = One

\* C07: today's ledger of strategy s; cash0 = cash at the previous close
LedgerRHS(C, st, s) ==
  LET own  == [i \in 1..Len(C.kids[s]) |->
                 IF IsSec(C, C.kids[s][i]) THEN st.outl[C.kids[s][i]] ELSE Zero]
      subs == [i \in 1..Len(C.kids[s]) |->
                 IF IsStrat(C, C.kids[s][i]) THEN st.flow[C.kids[s][i]] ELSE Zero]
  IN  RSub(RSub(RSub(RAdd(RAdd(st.flow[s], st.nonflow[s]), st.swept[s]),
                     RSumSeq(own)), st.fee[s]), RSumSeq(subs))

\* C02: change of root value between the previous close and now
PnlRHS(C, st) ==
  LET secs == SecSeq(C)  strs == StratSeq(C)
      mtm  == [i \in 1..Len(secs) |->
                 IF IsZero(st.ppos[secs[i]]) THEN Zero
                 ELSE RMul(RMul(st.ppos[secs[i]],
                                RSub(Px(C, secs[i], st.t), Px(C, secs[i], st.t - 1))),
                           C.mult[secs[i]])]
      swp  == [i \in 1..Len(strs) |-> st.swept[strs[i]]]
      nfl  == [i \in 1..Len(strs) |-> st.nonflow[strs[i]]]
      fees == [i \in 1..Len(strs) |-> st.fee[strs[i]]]
      bops == [i \in 1..Len(secs) |-> st.bop[secs[i]]]
  IN  RSub(RSub(RAdd(RAdd(RAdd(RSumSeq(mtm), st.flow[Root]), RSumSeq(nfl)), RSumSeq(swp)),
                RSumSeq(fees)), RSumSeq(bops))
=============================================================================
