--------------------------- MODULE MC_BtSession ---------------------------
(***************************************************************************)
(* Design check for C11: the ideal session semantics explored over *all*   *)
(* interleavings of constructing / running / re-running K backtests from   *)
(* one template; its behaviours are the schedules the harness replays.     *)
(* phase[b]: 0 = not constructed, 1 = constructed, 2 = has run.            *)
(***************************************************************************)
EXTENDS Integers, Sequences, FiniteSets, TLC
CONSTANTS K, MaxReruns
VARIABLES phase, res, reruns, tmpl, hist
vars == <<phase, res, reruns, tmpl, hist>>
B == 1..K
Solo(b) == 100 + b            \* the result b produces on its own
Init == phase = [b \in B |-> 0] /\ res = [b \in B |-> 0] /\ reruns = [b \in B |-> 0] /\ tmpl = 7 /\ hist = <<>>
Construct(b) == phase[b] = 0 /\ phase' = [phase EXCEPT ![b] = 1] /\ hist' = Append(hist, <<"construct", b>>) /\ UNCHANGED <<res, reruns, tmpl>>
Run(b) == phase[b] = 1 /\ phase' = [phase EXCEPT ![b] = 2] /\ res' = [res EXCEPT ![b] = Solo(b)]
          /\ hist' = Append(hist, <<"run", b>>) /\ UNCHANGED <<reruns, tmpl>>
Rerun(b) == phase[b] = 2 /\ reruns[b] < MaxReruns /\ reruns' = [reruns EXCEPT ![b] = @ + 1]
            /\ hist' = Append(hist, <<"rerun", b>>) /\ UNCHANGED <<phase, res, tmpl>>
Next == \E b \in B : Construct(b) \/ Run(b) \/ Rerun(b)
Spec == Init /\ [][Next]_vars
Inv_TemplateUntouched == tmpl = 7
Inv_ResultIsSolo == \A b \in B : res[b] \in {0, Solo(b)} /\ (phase[b] = 2 <=> res[b] = Solo(b))
\* every complete schedule (all constructed, run and re-run) is printed: the
\* harness replays exactly these into the real Backtest class
Inv_EmitSchedules ==
  (\A b \in B : phase[b] = 2 /\ reruns[b] = MaxReruns) => PrintT(<<"H", hist>>)
Act_Isolation == [][\A b \in B : (res'[b] # res[b]) => (hist' = Append(hist, <<"run", b>>))]_vars
=============================================================================
