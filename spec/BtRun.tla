------------------------------- MODULE BtRun -------------------------------
(***************************************************************************)
(* C10: well-formed runs complete with finite results; the enumerated      *)
(* ill-formed situations raise.  A case is a record of abstract features;  *)
(* Raises(c) is the property's answer.                                     *)
(***************************************************************************)
EXTENDS Integers, Sequences, FiniteSets, TLC

Raises(c) ==
  CASE c.class = "trade_price"  -> c.amount_nonzero /\ c.price \in {"nan", "zero"}
    [] c.class = "hold_price"   -> c.position_open /\ c.price = "nan"
    [] c.class = "hold_coupon"  -> c.position_open /\ c.price = "nan"      \* price field carries the coupon state
    [] c.class = "dup_ticker"   -> c.flag
    [] c.class = "zero_base"    -> c.flag /\ c.amount_nonzero           \* base zero and value non-zero
    [] c.class = "fi_child"     -> c.flag /\ ~c.flag2                   \* fixed-income child, market-value parent
    [] c.class = "custom_price" -> ~c.flag                              \* flag = bid/offer data supplied
    [] c.class = "dup_child"    -> c.flag
    [] c.class = "program"      -> FALSE                                \* a generated well-formed backtest
    [] OTHER -> FALSE

Judge(c) ==
  (IF Raises(c) = c.raised THEN {} ELSE {<<IF Raises(c) THEN "C10.mustraise" ELSE "C10.noraise", 0>>})
  \cup (IF ~c.raised /\ ~c.finite THEN {<<"C10.finite", 0>>} ELSE {})
  \cup (IF ~c.raised /\ ~c.reports THEN {<<"C10.reports", 0>>} ELSE {})
=============================================================================
