----------------------------- MODULE BtSession -----------------------------
(***************************************************************************)
(* C11: sessions of backtests built from one strategy template and one     *)
(* data set.  The ideal semantics: constructing a backtest copies the      *)
(* template; running it touches only that copy; its result is a function   *)
(* Solo(b) of (template, data, settings of b, seed) alone; running again   *)
(* is a no-op.  Fingerprints are small integers (first-occurrence ids of   *)
(* deep digests computed by the harness).                                  *)
(***************************************************************************)
EXTENDS Integers, Sequences, FiniteSets, TLC

\* an event of a session: [op, b, fpT, fpD, res, runs]
\*   op in {"construct", "run", "rerun"}; b the backtest; fpT / fpD the
\*   fingerprints of template and data *after* the event; res the fingerprint
\*   of b's recorded results after the event (0 before it has run); runs the
\*   number of times b's strategy was actually run (spy counter)
EventOK(e, fpT0, fpD0, solo, prevres, prevruns) ==
  LET bad ==
        (IF e.fpT = fpT0 THEN {} ELSE {<<"C11.template", e.b>>})
        \cup (IF e.fpD = fpD0 THEN {} ELSE {<<"C11.data", e.b>>})
        \cup (IF e.op = "run" /\ e.res # solo[e.b] THEN {<<"C11.result", e.b>>} ELSE {})
        \cup (IF e.op = "rerun" /\ (e.res # prevres[e.b] \/ e.runs # prevruns[e.b])
              THEN {<<"C11.rerun", e.b>>} ELSE {})
        \* nobody else's recorded results move
        \cup {<<"C11.isolation", o>> : o \in {o \in DOMAIN prevres :
                 o # e.b /\ e.others[o] # prevres[o]}}
  IN  bad
=============================================================================
