--------------------------- MODULE Trace_BtStack ---------------------------
EXTENDS BtStack, Json, IOUtils, TLCExt

Doc    == JsonDeserialize(IOEnv.TRACE_FILE)
Traces == Doc.traces

VARIABLES tid, done
vars == <<tid, done>>
Init == tid \in 1..Len(Traces) /\ done = FALSE

Judge(tr) ==
  CASE tr.what = "expr" ->
         LET r == Exec(tr.expr)
         IN  (IF r.calls = tr.calls THEN {} ELSE {<<"C13.order", 0>>})
             \cup (IF r.ret = tr.ret THEN {} ELSE {<<"C13.result", 0>>})
    [] tr.what = "oob" ->
         IF tr.exc # "none"
         THEN {<<"C13.oob.raise", 0>>}
         ELSE IF OutOfBounds(tr.hasw, tr.held, tr.tol) = tr.ret THEN {} ELSE {<<"C13.oob", 0>>}
    [] tr.what = "run" ->
         \* each run: the order in which strategies ran, temp empty at entry, perm kept
         UNION {
           (IF tr.runs[k].order = RunOrder(tr.kids, 1) THEN {} ELSE {<<"C13.runorder", k>>})
           \cup (IF \A i \in 1..Len(tr.runs[k].tempempty) : tr.runs[k].tempempty[i] THEN {} ELSE {<<"C13.temp", k>>})
           \cup (IF \A i \in 1..Len(tr.runs[k].perm) : tr.runs[k].perm[i] = k - 1 THEN {} ELSE {<<"C13.perm", k>>})
           : k \in 1..Len(tr.runs) }
    [] OTHER -> {<<"C13.unknown", 0>>}

\* K2: the cash branch of RunIfOutOfBounds evaluates targets.value on a dict
KF(tr) == IF tr.what = "oob" /\ tr.exc # "none" /\ tr.hascash /\ tr.hasw
             /\ ~(\E i \in 1..Len(tr.held) : Deviates(tr.held[i].cw, tr.held[i].w, tr.tol))
          THEN "K2" ELSE "none"

Next ==
  /\ ~done
  /\ LET tr == Traces[tid]
         bad == Judge(tr)
     IN  PrintT(<<"V", tr.tid, IF bad = {} THEN "OK" ELSE IF KF(tr) # "none" THEN "KNOWN" ELSE "FAIL",
                  1, bad, KF(tr)>>)
  /\ done' = TRUE /\ UNCHANGED tid
Spec == Init /\ [][Next]_vars
=============================================================================
