------------------------------ MODULE BtImpl ------------------------------
(***************************************************************************)
(* The implementation-shaped layer under the abstract ledger BtAbs: the    *)
(* lazy update machinery of bt/core.py as explicit state, one operator per *)
(* method, the same control flow (early returns, skipped children, the     *)
(* conditional write of the value / index, the retire rule of a flat       *)
(* security, the stale flag).  MC_BtImpl runs it in lock step with BtAbs   *)
(* and checks that it refines the ledger; Trace_BtImpl checks that the     *)
(* real objects' private fields follow it.                                 *)
(*                                                                         *)
(* Scope: market-value trees (kinds "strat" / "sec", no fixed-income node, *)
(* no coupons), every security has a price column (`_prices_set`), no      *)
(* paper trading (a sub-strategy's own index is computed but the shadow    *)
(* that overwrites it is not modelled), children exist from the start.     *)
(*                                                                         *)
(* State record im:                                                        *)
(*   stale, bankrupt        root.stale, root.bankrupt                      *)
(*   now[n]                 date of node n (0 = never updated)             *)
(*   cap[s]                 _capital           val[n]   _value             *)
(*   ntl[n]                 _notl_value (sum of |children's notional|)     *)
(*   wgt[n]                 _weight            prc[n]   _price             *)
(*   lval[s] lprc[s]        _last_value, _last_price                       *)
(*   nfl[s]  lfee[s]        _net_flows, _last_fee                          *)
(*   bop[n]                 _bidoffer_paid     bo[x]    _bidoffer          *)
(*   pos[x] lpos[x]         _position, _last_pos                           *)
(*   need[x]                _needupdate        out[x]   _outlay (pending)  *)
(*   rows[k][n][t]          the recorded series (k in RowKinds)            *)
(*   tr, auto               logged trades still to be consumed / no log    *)
(***************************************************************************)
EXTENDS BtAbs

PAR == R(100)
\* inow: before the first update (now = 0) the code writes into the first row
Row(d) == IF d = 0 THEN 1 ELSE d
RowKinds == {"value", "price", "cash", "fees", "flows", "bop", "pos", "outl"}

ImplInit(C) ==
  [stale |-> FALSE, bankrupt |-> FALSE,
   now  |-> [n \in Nodes(C) |-> 0],
   cap  |-> ZeroFn(C), val |-> ZeroFn(C), ntl |-> ZeroFn(C),
   wgt  |-> [n \in Nodes(C) |-> IF IsStrat(C, n) THEN One ELSE Zero],
   prc  |-> [n \in Nodes(C) |-> IF IsStrat(C, n) THEN PAR ELSE Zero],
   lval |-> ZeroFn(C), lprc |-> [n \in Nodes(C) |-> PAR],
   nfl  |-> ZeroFn(C), lfee |-> ZeroFn(C),
   bop  |-> ZeroFn(C), bo |-> ZeroFn(C),
   pos  |-> ZeroFn(C), lpos |-> ZeroFn(C),
   need |-> [n \in Nodes(C) |-> IsSec(C, n)],
   out  |-> ZeroFn(C),
   rows |-> [k \in RowKinds |-> [n \in Nodes(C) |-> [t \in 1..C.T |-> Zero]]],
   tr |-> <<>>, auto |-> TRUE]

(***************************************************************************)
(* SecurityBase.update                                                     *)
(***************************************************************************)
SecUpdate(C, im, x, d) ==
  IF d = im.now[x] /\ im.lpos[x] = im.pos[x] THEN im ELSE
  LET t    == Row(d)
      chg  == d # im.now[x]
      prc1 == IF chg THEN Px(C, x, d) ELSE im.prc[x]
      bo1  == IF chg /\ C.bidoffer THEN Spr(C, x, d) ELSE im.bo[x]
      bop1 == IF chg /\ C.bidoffer THEN Zero ELSE im.bop[x]
      \* (an open position on a missing price raises: the callers exclude it)
      v1   == IF IsNaN(prc1) THEN (IF IsZero(im.pos[x]) THEN Zero ELSE NaN)
              ELSE RMul(RMul(im.pos[x], prc1), C.mult[x])
      \* a flat, weightless security that paid no spread today is retired -
      \* but not while changes are pending in the tree
      retire == IsZero(im.wgt[x]) /\ IsZero(im.pos[x]) /\ ~im.stale /\ IsZero(bop1)
  IN  [im EXCEPT !.now[x] = d, !.prc[x] = prc1, !.bo[x] = bo1, !.bop[x] = bop1,
                 !.lpos[x] = im.pos[x], !.val[x] = v1, !.ntl[x] = v1,
                 !.need[x] = IF retire THEN FALSE ELSE @,
                 !.out[x] = Zero,
                 !.rows = [@ EXCEPT !["pos"][x][t] = im.pos[x],
                                    !["value"][x][t] = v1,
                                    !["outl"][x][t] = IF im.out[x] # Zero THEN RAdd(@, im.out[x]) ELSE @,
                                    !["bop"][x][t] = IF C.bidoffer THEN bop1 ELSE @]]

(***************************************************************************)
(* StrategyBase.adjust                                                     *)
(***************************************************************************)
ImplAdjust(im, s, a, upd, isflow, fee) ==
  [im EXCEPT !.cap[s]  = RAdd(@, a),
             !.lfee[s] = RAdd(@, fee),
             !.nfl[s]  = IF isflow THEN RAdd(@, a) ELSE @,
             !.stale   = IF upd THEN TRUE ELSE @]

(***************************************************************************)
(* SecurityBase.outlay / transact / allocate                               *)
(***************************************************************************)
ImplOutlay(C, im, x, q, cp) ==
  LET P   == im.prc[x]
      m   == C.mult[x]
      fee == Comm(C.comm[C.par[x]], q, IF IsNaN(cp) THEN RMul(P, m) ELSE RMul(cp, m))
      bo  == IF IsNaN(cp) THEN RMul(RMul(RAbs(q), RDiv(im.bo[x], R(2))), m)
             ELSE RMul(RMul(q, RSub(cp, P)), m)
      out == RAdd(RMul(RMul(q, P), m), bo)
  IN  [full |-> RAdd(out, fee), out |-> out, fee |-> fee, bo |-> bo]

SecTransact(C, im, x, q, upd, updself, cp) ==
  LET p   == C.par[x]
      im1 == IF updself /\ (im.need[x] \/ im.now[x] # im.now[p])
             THEN SecUpdate(C, im, x, im.now[p]) ELSE im
  IN  IF IsZero(q) \/ IsNaN(q) THEN im1 ELSE
      LET o   == ImplOutlay(C, im1, x, q, cp)
          im2 == [im1 EXCEPT !.need[x] = TRUE,
                             !.pos[x]  = RAdd(@, q),
                             !.out[x]  = RAdd(@, o.out),
                             !.bop[x]  = RAdd(@, o.bo)]
      IN  ImplAdjust(im2, p, RNeg(o.full), upd, FALSE, o.fee)

\* the quantity the sizing search settles on (whole units: the largest q whose
\* full outlay fits the amount - what the shipped search computes outside the
\* classes K1a-K1f; fractional: costs linear in |q|)
RECURSIVE IDown(_, _, _, _, _)
IDown(C, im, x, a, q) ==
  IF Cmp(ImplOutlay(C, im, x, R(q), NaN).full, a) \in {-1, 0, 2} \/ q < -100000 THEN q
  ELSE IDown(C, im, x, a, q - 1)
RECURSIVE IUp(_, _, _, _, _)
IUp(C, im, x, a, q) ==
  IF Cmp(ImplOutlay(C, im, x, R(q + 1), NaN).full, a) \in {1, 2} \/ q > 100000 THEN q
  ELSE IUp(C, im, x, a, q + 1)
ImplQ(C, im, x, a) ==
  IF RAdd(a, im.val[x]) = Zero THEN RNeg(im.pos[x]) ELSE
  LET u == RMul(im.prc[x], C.mult[x]) IN
  IF Bad(a) \/ Bad(u) \/ IsZero(u) THEN Zero ELSE    \* a NaN amount gives a NaN quantity: nothing to do
  IF C.integer THEN
     LET hs == RMul(RDiv(im.bo[x], R(2)), C.mult[x])
         ue == IF RSign(a) > 0 THEN RAdd(u, hs) ELSE RSub(u, hs)
         q0 == IF Bad(ue) \/ RSign(ue) # 1 THEN RFloor(RDiv(a, u)) ELSE RFloor(RDiv(a, ue))
     IN  IF Cmp(ImplOutlay(C, im, x, R(q0), NaN).full, a) = 2 THEN OVF   \* outside 32-bit rationals
         ELSE R(IUp(C, im, x, a, IDown(C, im, x, a, q0)))
  ELSE LET s == IF RSign(a) > 0 THEN One ELSE R(-1)
       IN  RDiv(a, RAdd(u, RMul(s, RMul(RDiv(im.bo[x], R(2)), C.mult[x]))))
\* the arithmetic left the representable range somewhere
ImplPoisoned(C, im) ==
  \E n \in Nodes(C) : IsOvf(im.cap[n]) \/ IsOvf(im.pos[n]) \/ IsOvf(im.val[n]) \/ IsOvf(im.wgt[n])

ImplHeadIdx(im, x) == LET S == {i \in 1..Len(im.tr) : im.tr[i][1] = x}
                      IN  IF S = {} THEN 0 ELSE CHOOSE i \in S : \A j \in S : i <= j
ImplPop(im, x) == LET k == ImplHeadIdx(im, x)
                  IN  IF k = 0 THEN im
                      ELSE [im EXCEPT !.tr = [i \in 1..(Len(@) - 1) |-> IF i < k THEN @[i] ELSE @[i + 1]]]

SecAllocate(C, im, x, a, upd) ==
  LET p   == C.par[x]
      im1 == IF im.need[x] \/ im.now[x] # im.now[p] THEN SecUpdate(C, im, x, im.now[p]) ELSE im
  IN  IF IsZero(a) THEN im1 ELSE
      \* (a zero or missing price raises here: the callers exclude it)
      LET k   == ImplHeadIdx(im1, x)
          q   == IF im1.auto THEN ImplQ(C, im1, x, a) ELSE IF k = 0 THEN Zero ELSE im1.tr[k][2]
          im2 == IF im1.auto THEN im1 ELSE ImplPop(im1, x)
      IN  IF IsZero(q) THEN im2 ELSE SecTransact(C, im2, x, q, upd, FALSE, NaN)

(***************************************************************************)
(* StrategyBase.update, flatten, allocate - mutually recursive             *)
(***************************************************************************)
RECURSIVE StratUpdate(_, _, _, _)
RECURSIVE KidsLoop(_, _, _, _, _)
RECURSIVE WLoop(_, _, _, _, _)
RECURSIVE FlatLoop(_, _, _, _)
RECURSIVE NodeAlloc(_, _, _, _, _)
RECURSIVE PushLoop(_, _, _, _, _)

ImplRead(C, im) == IF im.stale THEN StratUpdate(C, im, Root, im.now[Root]) ELSE im

\* first loop over the children: update those that need it, sum value and spread
KidsLoop(C, ks, i, d, acc) ==
  IF i > Len(ks) THEN acc ELSE
  LET c == ks[i] IN
  IF IsSec(C, c) /\ ~acc.im.need[c] THEN KidsLoop(C, ks, i + 1, d, acc)
  ELSE LET im1 == IF IsSec(C, c) THEN SecUpdate(C, acc.im, c, d) ELSE StratUpdate(C, acc.im, c, d)
       IN  KidsLoop(C, ks, i + 1, d,
                    [im |-> im1, val |-> RAdd(acc.val, im1.val[c]), bop |-> RAdd(acc.bop, im1.bop[c]),
                     ntl |-> RAdd(acc.ntl, RAbs(im1.ntl[c]))])

\* second loop: weights of the children that are still being updated
WLoop(C, im, ks, i, val) ==
  IF i > Len(ks) THEN im ELSE
  LET c == ks[i] IN
  IF IsSec(C, c) /\ ~im.need[c] THEN WLoop(C, im, ks, i + 1, val)
  ELSE WLoop(C, [im EXCEPT !.wgt[c] = IF ~IsZero(val) THEN RDiv(im.val[c], val) ELSE Zero],
             ks, i + 1, val)

FlatLoop(C, im, ks, i) ==
  IF i > Len(ks) THEN im ELSE
  LET c   == ks[i]
      im1 == ImplRead(C, im)                     \* `c.value` is a property
  IN  FlatLoop(C, IF im1.val[c] # Zero THEN NodeAlloc(C, im1, c, RNeg(im1.val[c]), FALSE) ELSE im1,
               ks, i + 1)
ImplFlatten(C, im, s) == [FlatLoop(C, im, C.kids[s], 1) EXCEPT !.stale = TRUE]

StratUpdate(C, im, s, d) ==
  LET im0   == [im EXCEPT !.stale = FALSE]
      first == im0.now[s] = 0
      chg   == ~first /\ d # im0.now[s]
      newpt == first \/ chg
      im1   == IF chg THEN [im0 EXCEPT !.nfl[s] = Zero, !.lprc[s] = im0.prc[s],
                                       !.lval[s] = im0.val[s], !.lfee[s] = Zero]
               ELSE im0
      im2   == [im1 EXCEPT !.now[s] = d]
      t     == Row(d)
      acc   == KidsLoop(C, C.kids[s], 1, d, [im |-> im2, val |-> im2.cap[s], bop |-> Zero, ntl |-> Zero])
      im3   == acc.im
      val   == acc.val
  IN  IF s = Root /\ ~Bad(val) /\ RSign(val) = -1 /\ ~im3.bankrupt /\ ~C.fi[Root]
      THEN \* declare a bankruptcy, liquidate, start the update over
           StratUpdate(C, ImplFlatten(C, [im3 EXCEPT !.bankrupt = TRUE], Root), Root, d)
      ELSE
      LET cond   == \/ newpt
                    \/ ~IsZero(RSub(im3.val[s], val))
                    \/ ~IsZero(RSub(im3.ntl[s], acc.ntl))
                    \/ ~IsZero(RSub(im3.rows["flows"][s][t], im3.nfl[s]))
                    \/ (C.bidoffer /\ ~IsZero(RSub(im3.bop[s], acc.bop)))
          bottom == RAdd(im3.lval[s], im3.nfl[s])
          ret    == IF ~IsZero(bottom) THEN RSub(RDiv(val, bottom), One)
                    ELSE IF IsZero(val) THEN Zero ELSE NaN    \* ZeroDivisionError
          prc    == RMul(im3.lprc[s], RAdd(One, ret))
          im4    == IF cond
                    THEN [im3 EXCEPT !.val[s] = val, !.ntl[s] = acc.ntl,
                                     !.bop[s] = IF C.bidoffer THEN acc.bop ELSE @,
                                     !.prc[s] = prc,
                                     !.rows = [@ EXCEPT !["value"][s][t] = val,
                                                        !["bop"][s][t] = IF C.bidoffer THEN acc.bop ELSE @,
                                                        !["price"][s][t] = prc]]
                    ELSE im3
          im5    == WLoop(C, im4, C.kids[s], 1, val)
      IN  [im5 EXCEPT !.rows = [@ EXCEPT !["cash"][s][t]  = im5.cap[s],
                                         !["fees"][s][t]  = im5.lfee[s],
                                         !["flows"][s][t] = im5.nfl[s]]]

\* StrategyBase.allocate(amount) on the strategy itself: settle, move the capital,
\* push down by the cached weights
PushLoop(C, im, ks, i, a) ==
  IF i > Len(ks) THEN im
  ELSE PushLoop(C, NodeAlloc(C, im, ks[i], RMul(a, im.wgt[ks[i]]), FALSE), ks, i + 1, a)

NodeAlloc(C, im, n, a, upd) ==
  IF IsSec(C, n) THEN SecAllocate(C, im, n, a, upd)
  ELSE LET im1 == ImplRead(C, im)
           p   == C.par[n]
           im2 == IF n = Root THEN im1    \* adjust(-a) and adjust(+a), both flows: cancels
                  ELSE ImplAdjust(ImplAdjust(im1, p, RNeg(a), FALSE, FALSE, Zero), n, a, FALSE, TRUE, Zero)
           im3 == PushLoop(C, im2, C.kids[n], 1, a)
       IN  [im3 EXCEPT !.stale = IF upd THEN TRUE ELSE @]

(***************************************************************************)
(* close, rebalance, the public update                                     *)
(***************************************************************************)
ImplClose(C, im, s, c, upd) ==
  LET im1 == IF IsStrat(C, c) /\ Len(C.kids[c]) > 0 THEN ImplFlatten(C, im, c) ELSE im
      im2 == ImplRead(C, im1)                    \* `c.value`
  IN  IF im2.val[c] # Zero /\ ~IsNaN(im2.val[c]) THEN NodeAlloc(C, im2, c, RNeg(im2.val[c]), upd)
      ELSE im2

ImplRebalance(C, im, s, w, c, base, upd) ==
  IF IsZero(w) THEN ImplClose(C, im, s, c, upd) ELSE
  LET im1   == ImplRead(C, im)                   \* `self.value`, `c.weight`
      b     == IF IsNaN(base) THEN im1.val[s] ELSE base
      delta == RSub(RMul(w, b), RMul(im1.wgt[c], im1.val[s]))
  IN  NodeAlloc(C, im1, c, delta, upd)

ImplUpdate(C, im, d) == StratUpdate(C, im, Root, d)

(***************************************************************************)
(* Refinement mapping.  ab is the state of BtAbs after the same operations.*)
(* When the abstract state is fresh, what a read of the implementation     *)
(* returns (after the lazy update a read triggers) is the ledger; inside a *)
(* deferred batch the balances move and the snapshot stays.                *)
(***************************************************************************)
RECURSIVE BopUnder(_, _, _)
BopUnder(C, ab, n) ==
  IF IsSec(C, n) THEN ab.bop[n]
  ELSE RSumSeq([i \in 1..Len(C.kids[n]) |-> BopUnder(C, ab, C.kids[n][i])])

RefinesFresh(C, im0, ab) ==
  LET im == ImplRead(C, im0)
      t  == Row(ab.t)
  IN  /\ im.bankrupt = ab.bankrupt
      /\ im.now[Root] = ab.t
      /\ \A n \in Nodes(C) :
           IF IsStrat(C, n)
           THEN /\ im.cap[n] = ab.cash[n]
                /\ im.val[n] = ab.sval[n]
                /\ im.rows["value"][n][t] = ab.sval[n]
                /\ im.rows["cash"][n][t]  = ab.cash[n]
                /\ im.rows["fees"][n][t]  = ab.fee[n]
                /\ im.rows["flows"][n][t] = ab.flow[n]
                /\ C.bidoffer => im.rows["bop"][n][t] = BopUnder(C, ab, n)
                /\ n # Root => im.wgt[n] = ab.swgt[n]
           ELSE /\ im.pos[n] = ab.pos[n]
                /\ im.val[n] = ab.sval[n]
                /\ im.wgt[n] = ab.swgt[n]
                /\ im.rows["pos"][n][t]   = ab.pos[n]
                /\ im.rows["value"][n][t] = ab.sval[n]
                /\ im.rows["outl"][n][t]  = ab.outl[n]
                /\ C.bidoffer => im.rows["bop"][n][t] = ab.bop[n]
      \* the index: price(now) = price(previous date) * value / (previous value + flows)
      /\ LET q == IdxRatio(C, ab, Root)
         IN  (ab.t > 0 /\ ~Bad(q)) => im.prc[Root] = RMul(im.lprc[Root], q)

RefinesDeferred(C, im, ab) ==
  /\ \A n \in Nodes(C) :
       IF IsStrat(C, n) THEN im.cap[n] = ab.cash[n] /\ im.val[n] = ab.sval[n]
       ELSE im.pos[n] = ab.pos[n]
  /\ \A n \in Nodes(C) \ {Root} : im.wgt[n] = ab.swgt[n]

\* (before the first date nothing is read: only the balances are compared)
Refines(C, im, ab) ==
  IF ab.t = 0 THEN \A n \in Nodes(C) : IsStrat(C, n) => im.cap[n] = ab.cash[n]
  ELSE IF ab.fresh THEN RefinesFresh(C, im, ab) ELSE RefinesDeferred(C, im, ab)

\* rows of dates before the current one
Earlier(C, im) == [k \in RowKinds |-> [n \in Nodes(C) |->
                     [t \in 1..C.T |-> IF t < Row(im.now[Root]) THEN im.rows[k][n][t] ELSE Zero]]]
\* what a user can observe now (after the read's own lazy update)
Observable(C, im0) ==
  LET im == ImplRead(C, im0) t == Row(im.now[Root])
  IN  [cap |-> im.cap, pos |-> im.pos, val |-> im.val,
       wgt |-> [n \in Nodes(C) |-> IF n = Root THEN One ELSE im.wgt[n]],
       prc |-> im.prc[Root], bankrupt |-> im.bankrupt,
       row |-> [k \in RowKinds |-> [n \in Nodes(C) |-> im.rows[k][n][t]]]]
=============================================================================
