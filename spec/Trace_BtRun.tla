---------------------------- MODULE Trace_BtRun ----------------------------
EXTENDS BtRun, Json, IOUtils, TLCExt
Doc    == JsonDeserialize(IOEnv.TRACE_FILE)
Traces == Doc.traces
VARIABLES tid, done
vars == <<tid, done>>
Init == tid \in 1..Len(Traces) /\ done = FALSE
Next ==
  /\ ~done
  /\ LET tr == Traces[tid]
         bad == Judge(tr)
     IN  PrintT(<<"V", tr.tid, IF bad = {} THEN "OK" ELSE IF tr.kf # "none" THEN "KNOWN" ELSE "FAIL", 1, bad,
                  IF bad = {} THEN "none" ELSE tr.kf>>)
  /\ done' = TRUE /\ UNCHANGED tid
Spec == Init /\ [][Next]_vars
=============================================================================
