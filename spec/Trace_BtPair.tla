---------------------------- MODULE Trace_BtPair ----------------------------
(***************************************************************************)
(* Relational properties are judged on a pair of runs A and B of the real  *)
(* code whose inputs are related as the property says.  Each run is        *)
(* reduced to per-date digests of what it recorded (one integer per date   *)
(* and series family: a CRC over the raw IEEE bit patterns of every row of *)
(* every node at that date, so equality is bit-for-bit); for C09 the       *)
(* entries are index levels in fixed point.  The relations:                *)
(*   "prefix": A and B agree on every date <= cut    (C04: no look-ahead)  *)
(*   "equal" : A and B agree on every date           (C09, C11, C19, C18)  *)
(* `pre` carries the digests of the *inputs*: they must agree up to cut    *)
(* (otherwise the pair is not an instance of the property: machinery).     *)
(***************************************************************************)
EXTENDS Integers, Sequences, FiniteSets, TLC, Json, IOUtils, TLCExt

Doc    == JsonDeserialize(IOEnv.TRACE_FILE)
Traces == Doc.traces

VARIABLES tid, done
vars == <<tid, done>>
Init == tid \in 1..Len(Traces) /\ done = FALSE

Upto(tr, s) == IF tr.rel = "prefix" THEN tr.cut ELSE Len(s.a)
Agree(tr, s) == /\ Len(s.a) = Len(s.b) \/ tr.rel = "prefix"
                /\ \A d \in 1..Upto(tr, s) : d <= Len(s.a) /\ d <= Len(s.b) /\ s.a[d] = s.b[d]
FirstDiff(tr, s) == LET S == {d \in 1..Upto(tr, s) : d > Len(s.a) \/ d > Len(s.b) \/ s.a[d] # s.b[d]}
                    IN  IF S = {} THEN 0 ELSE CHOOSE d \in S : \A e \in S : d <= e

Bad(tr) == {<<tr.series[i].name, FirstDiff(tr, tr.series[i])>> :
               i \in {j \in 1..Len(tr.series) : ~Agree(tr, tr.series[j])}}
PreBad(tr) == {<<"PRE." \o tr.pre[i].name, FirstDiff(tr, tr.pre[i])>> :
               i \in {j \in 1..Len(tr.pre) : ~Agree(tr, tr.pre[j])}}

Next ==
  /\ ~done
  /\ LET tr == Traces[tid]
         bad == Bad(tr) \cup PreBad(tr)
     IN  PrintT(<<"V", tr.tid, IF bad = {} THEN "OK" ELSE "FAIL", 1, bad, "none">>)
  /\ done' = TRUE /\ UNCHANGED tid
Spec == Init /\ [][Next]_vars
=============================================================================
