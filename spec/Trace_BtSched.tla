--------------------------- MODULE Trace_BtSched ---------------------------
(***************************************************************************)
(* Judge for C12: each trace is a scheduler (kind, parameters), a date      *)
(* index and the sequence of calls the driver made on the real algo with   *)
(* the value it returned.  TLC steps the scheduler's state machine and     *)
(* compares.                                                               *)
(***************************************************************************)
EXTENDS BtSched, Json, IOUtils, TLCExt

Doc    == JsonDeserialize(IOEnv.TRACE_FILE)
Traces == Doc.traces

VARIABLES tid, l, cs, done
vars == <<tid, l, cs, done>>

Init == /\ tid \in 1..Len(Traces) /\ l = 1 /\ done = FALSE
        /\ cs = InitCount(Traces[tid].kind, Traces[tid].p)

Next ==
  /\ ~done
  /\ LET tr == Traces[tid]
     IN  IF l > Len(tr.calls)
         THEN /\ PrintT(<<"V", tr.tid, "OK", l - 1, {}, "none">>)
              /\ done' = TRUE /\ UNCHANGED <<tid, l, cs>>
         ELSE LET c   == tr.calls[l]          \* [pos, ts, ret]
                  per == IsPeriodKind(tr.kind)
                  r   == IF per THEN [st |-> cs, fire |-> PeriodFire(tr.kind, tr.p, tr.idx, c.pos)]
                         ELSE StepCount(tr.kind, tr.p, cs, c.ts)
              IN  IF r.fire = c.ret
                  THEN /\ cs' = r.st /\ l' = l + 1 /\ UNCHANGED <<tid, done>>
                  ELSE /\ PrintT(<<"V", tr.tid,
                                   IF per /\ KF_Weekly(tr.kind, tr.p, tr.idx, c.pos) THEN "KNOWN" ELSE "FAIL",
                                   l, {<<"C12.fire", c.pos>>},
                                   IF per /\ KF_Weekly(tr.kind, tr.p, tr.idx, c.pos) THEN "F2" ELSE "none">>)
                       /\ done' = TRUE /\ UNCHANGED <<tid, l, cs>>
Spec == Init /\ [][Next]_vars
=============================================================================
