------------------------------ MODULE BtStack ------------------------------
(***************************************************************************)
(* C13: control flow of algo stacks.  An expression is a record            *)
(*   [t |-> "leaf", id, ret, ra]   ra in {"absent", "true", "false"}       *)
(*   [t |-> "stack", items]  [t |-> "or", items]  [t |-> "not", item]      *)
(*   [t |-> "require", present, isnone, pv, ifnone]                        *)
(* Exec(e) = [calls |-> sequence of leaf ids in invocation order,          *)
(*            ret |-> value reported]                                      *)
(***************************************************************************)
EXTENDS Integers, Sequences, FiniteSets, TLC

RECURSIVE Exec(_)
RECURSIVE ExecStack(_, _, _, _)
RECURSIVE ExecOr(_, _, _, _)

\* items[i..], res so far, calls so far
ExecStack(items, i, res, calls) ==
  IF i > Len(items) THEN [calls |-> calls, ret |-> res]
  ELSE LET e == items[i]
       IN  IF res THEN LET r == Exec(e) IN ExecStack(items, i + 1, r.ret, calls \o r.calls)
           \* after a failure only algos marked run_always (= True) still run
           ELSE IF e.t = "leaf" /\ e.ra = "true"
                THEN ExecStack(items, i + 1, res, calls \o Exec(e).calls)
                ELSE ExecStack(items, i + 1, res, calls)

ExecOr(items, i, res, calls) ==
  IF i > Len(items) THEN [calls |-> calls, ret |-> res]
  ELSE LET r == Exec(items[i]) IN ExecOr(items, i + 1, res \/ r.ret, calls \o r.calls)

Exec(e) ==
  CASE e.t = "leaf"    -> [calls |-> <<e.id>>, ret |-> e.ret]
    [] e.t = "stack"   -> ExecStack(e.items, 1, TRUE, <<>>)
    [] e.t = "or"      -> ExecOr(e.items, 1, FALSE, <<>>)
    [] e.t = "not"     -> LET r == Exec(e.item) IN [calls |-> r.calls, ret |-> ~r.ret]
    [] e.t = "require" -> [calls |-> <<>>, ret |-> IF ~e.present \/ e.isnone THEN e.ifnone ELSE e.pv]
    [] OTHER           -> [calls |-> <<>>, ret |-> FALSE]

(***************************************************************************)
(* RunIfOutOfBounds: True exactly when some held target deviates from its  *)
(* weight by more than the tolerance (relative deviation), or when no      *)
(* weights are set.  Weights are rationals <<n, d>> compared by cross      *)
(* multiplication on small integers.                                       *)
(***************************************************************************)
AbsI(x) == IF x < 0 THEN -x ELSE x
\* |cw - w| / |w| > tol  with cw = <<a,b>>, w = <<c,d>>, tol = <<p,q>> (b,d,q > 0, c # 0)
Deviates(cw, w, tol) == AbsI(cw[1] * w[2] - w[1] * cw[2]) * tol[2] > tol[1] * AbsI(w[1]) * cw[2]
OutOfBounds(hasw, held, tol) ==   \* held: sequence of [cw, w] for children named in targets
  ~hasw \/ \E i \in 1..Len(held) : Deviates(held[i].cw, held[i].w, tol)

(***************************************************************************)
(* Strategy.run on a tree: pre-order, own stack before the children's,     *)
(* every child exactly once.  kids[n] = children of node n.                *)
(***************************************************************************)
RECURSIVE RunOrder(_, _)
RECURSIVE RunKids(_, _, _)
RunKids(kids, ks, i) == IF i > Len(ks) THEN <<>> ELSE RunOrder(kids, ks[i]) \o RunKids(kids, ks, i + 1)
RunOrder(kids, n) == <<n>> \o RunKids(kids, kids[n], 1)
=============================================================================
