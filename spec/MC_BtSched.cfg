SPECIFICATION Spec
CONSTANTS
  MaxN = 4
  MaxCalls = 9
  DayLo = 13500
  DayHi = 23500
INVARIANT Inv_EveryN
INVARIANT Inv_Once
INVARIANT Inv_AfterDays
INVARIANT Inv_Calendar
CHECK_DEADLOCK FALSE
