SPECIFICATION Spec
CONSTANTS
  Which = "F2zero"
  MaxOps = 2
  MaxT = 2
  Slice = 1
INVARIANT NoOverflow
INVARIANT Inv_C01_Snapshot
INVARIANT Inv_C01_WeightsSum
INVARIANT Inv_C07_Ledger
INVARIANT Inv_C02_Conservation
INVARIANT Inv_C16_FlagIff
INVARIANT Inv_C16_Liquidated
PROPERTY Act_C02_TradesValueNeutral
PROPERTY Act_C03_FlowNeutral
PROPERTY Act_C16_Terminal
PROPERTY Act_C08_RefreshIdempotent
VIEW View
CHECK_DEADLOCK FALSE
