------------------------------ MODULE BtSelect ------------------------------
(***************************************************************************)
(* C14: what each selection algo leaves in temp['selected'] / temp['stat'].*)
(*                                                                         *)
(* A case tr carries: K tickers (ids 1..K, universe column order), the     *)
(* universe rows U[r][x] (rational or NaN) with calendar day numbers       *)
(* day[r], the current row now, the prior temp (pre.hassel, pre.sel,       *)
(* pre.hasstat, pre.stat), the algo and its parameters p, side tables      *)
(* (signal / statistic / on-the-run frames with their own day lists) and   *)
(* what the real algo did (out.ret, out.hassel, out.sel, out.hasstat,      *)
(* out.stat, exc).  Ranked and random selections are *predicates* on the   *)
(* observed choice (any n best, ties free; any subset of the right size).  *)
(***************************************************************************)
EXTENDS BtNum

SetOf(s) == {s[i] : i \in DOMAIN s}
NoDup(s) == \A i, j \in DOMAIN s : i # j => s[i] # s[j]
\* the strategy's universe: the declared tickers (all of them when none was declared)
\* and one column per declared sub-strategy (ids K+1 .. K+nsub, carrying its index)
Cols(tr) == SetOf(tr.scope) \cup ((tr.K + 1)..(tr.K + tr.nsub))
Cell(tr, r, x) == IF x > tr.K THEN R(100) ELSE tr.U[r][x]

\* tradable now: price present, and positive unless negatives are included
Tradable(tr, x, inclneg) ==
  LET v == Cell(tr, tr.now, x) IN ~IsNaN(v) /\ (inclneg \/ RSign(v) = 1)
Filter(tr, S, p) == IF p.incl_no_data THEN S ELSE {x \in S : Tradable(tr, x, p.incl_neg)}

Prior(tr) == IF tr.pre.hassel THEN SetOf(tr.pre.sel) ELSE Cols(tr)

\* rows of the universe (all <= now) whose day lies in [lo, hi]
RowsIn(tr, lo, hi) == {r \in 1..tr.now : tr.day[r] >= lo /\ tr.day[r] <= hi}
MinOf(S) == CHOOSE a \in S : \A b \in S : a <= b
MaxOf(S) == CHOOSE a \in S : \A b \in S : a >= b

(***************************************************************************)
(* total return over [now - lag - lookback, now - lag]                     *)
(***************************************************************************)
T0(tr, lag) == tr.day[tr.now] - lag
WindowRows(tr, lookback, lag) == RowsIn(tr, T0(tr, lag) - lookback, T0(tr, lag))
TotalReturn(tr, x, lookback, lag) ==
  LET W == WindowRows(tr, lookback, lag)
      a == Cell(tr, MinOf(W), x)
      b == Cell(tr, MaxOf(W), x)
  IN  IF IsNaN(a) \/ IsNaN(b) THEN NaN
      ELSE IF IsZero(a) THEN (IF IsZero(b) THEN NaN ELSE OVF)   \* 0/0 is NaN, x/0 not modelled
      ELSE RSub(RDiv(b, a), One)
\* the algo declines (returns False, temp untouched) when the data starts after now - lag
StatDeclines(tr, lag) == tr.day[1] > T0(tr, lag)

(***************************************************************************)
(* ranked selection: candidates with a statistic; any n best               *)
(***************************************************************************)
Ranked(stat, S) == {x \in S : ~IsNaN(stat[x])}
KeepN(n, L) == IF RGe(n, One) THEN RFloor(n) ELSE RFloor(RMul(n, R(L)))
RankOK(stat, cand, p, sel) ==
  LET L    == Cardinality(cand)
      keep == KeepN(p.n, L)
      want == IF p.all_or_none /\ L < keep THEN 0 ELSE Min(keep, L)
      S    == SetOf(sel)
  IN  /\ NoDup(sel) /\ S \subseteq cand /\ Cardinality(S) = want
      /\ \A s \in S, c \in cand \ S :
            IF p.descending THEN Cmp(stat[s], stat[c]) \in {0, 1, 2}
            ELSE Cmp(stat[s], stat[c]) \in {-1, 0, 2}

(***************************************************************************)
(* expected outcome per algo: a set of failing clause names                *)
(***************************************************************************)
SameSel(tr) == tr.out.hassel = tr.pre.hassel /\ (tr.pre.hassel => tr.out.sel = tr.pre.sel)
SameStat(tr) == tr.out.hasstat = tr.pre.hasstat /\ (tr.pre.hasstat => tr.out.stat = tr.pre.stat)
SelIs(tr, S) == tr.out.hassel /\ NoDup(tr.out.sel) /\ SetOf(tr.out.sel) = S
B(name, ok) == IF ok THEN {} ELSE {<<name, 0>>}

StatFrameRow(tr, d) == LET S == {i \in 1..Len(tr.sdays) : tr.sdays[i] = d}
                       IN  IF S = {} THEN 0 ELSE CHOOSE i \in S : TRUE

Judge(tr) ==
  LET p == tr.p IN
  CASE tr.algo = "SelectAll" ->
         B("C14.ret", tr.out.ret) \cup B("C14.selected", SelIs(tr, Filter(tr, Cols(tr), p)))
    [] tr.algo = "SelectThese" ->
         B("C14.ret", tr.out.ret) \cup B("C14.selected", SelIs(tr, Filter(tr, SetOf(p.tickers), p)))
    [] tr.algo = "SelectHasData" ->
         LET W == RowsIn(tr, tr.day[tr.now] - p.lookback, tr.day[tr.now])
             cnt(x) == Cardinality({r \in W : ~IsNaN(Cell(tr, r, x))})
             S == {x \in Prior(tr) : cnt(x) >= p.min_count}
         IN  B("C14.ret", tr.out.ret) \cup B("C14.selected", SelIs(tr, Filter(tr, S, p)))
    [] tr.algo = "SelectN" ->
         LET cand0 == Ranked(tr.pre.stat, Cols(tr))
             cand  == IF p.filter_selected /\ tr.pre.hassel THEN cand0 \cap SetOf(tr.pre.sel) ELSE cand0
         IN  B("C14.ret", tr.out.ret) \cup B("C14.selected", tr.out.hassel /\ RankOK(tr.pre.stat, cand, p, tr.out.sel))
    [] tr.algo = "StatTotalReturn" ->
         IF StatDeclines(tr, p.lag)
         THEN B("C14.ret", ~tr.out.ret) \cup B("C14.stat", SameStat(tr)) \cup B("C14.selected", SameSel(tr))
         ELSE B("C14.ret", tr.out.ret) \cup B("C14.selected", SameSel(tr))
              \cup B("C14.stat", tr.out.hasstat /\ \A x \in SetOf(tr.pre.sel) :
                       ChkEq(tr.out.stat[x], TotalReturn(tr, x, p.lookback, p.lag), 1000000) \in {"ok", "skip"})
    [] tr.algo = "SelectMomentum" ->
         IF StatDeclines(tr, p.lag)
         THEN B("C14.ret", ~tr.out.ret) \cup B("C14.selected", SameSel(tr))
         ELSE LET st == [x \in Cols(tr) |-> IF x \in SetOf(tr.pre.sel) THEN TotalReturn(tr, x, p.lookback, p.lag) ELSE NaN]
              IN  B("C14.ret", tr.out.ret)
                  \cup B("C14.selected", tr.out.hassel /\ RankOK(st, Ranked(st, Cols(tr)), p, tr.out.sel))
    [] tr.algo = "SetStat" ->
         LET i == StatFrameRow(tr, T0(tr, p.lag))
         IN  IF i = 0 THEN B("C14.ret", ~tr.out.ret) \cup B("C14.stat", SameStat(tr))
             ELSE B("C14.ret", tr.out.ret)
                  \cup B("C14.stat", tr.out.hasstat /\ \A x \in Cols(tr) : tr.out.stat[x] = tr.stab[i][x])
    [] tr.algo = "SelectWhere" ->
         LET i == StatFrameRow(tr, tr.day[tr.now])
         IN  IF i = 0 THEN B("C14.ret", tr.out.ret) \cup B("C14.selected", SameSel(tr))
             ELSE B("C14.ret", tr.out.ret)
                  \cup B("C14.selected", SelIs(tr, Filter(tr, {x \in Cols(tr) : tr.stab[i][x] = One}, p)))
    [] tr.algo = "SelectRandomly" ->
         LET cand == Filter(tr, Prior(tr), p)
             want == IF p.n < 0 THEN Cardinality(cand) ELSE Min(p.n, Cardinality(cand))
         IN  B("C14.ret", tr.out.ret)
             \cup B("C14.selected", tr.out.hassel /\ NoDup(tr.out.sel) /\ SetOf(tr.out.sel) \subseteq cand
                                    /\ Cardinality(SetOf(tr.out.sel)) = want)
    [] tr.algo = "SelectRegex" ->
         B("C14.ret", tr.out.ret) \cup B("C14.selected", SelIs(tr, {x \in SetOf(tr.pre.sel) : p.match[x]}))
    [] tr.algo = "SelectActive" ->
         B("C14.ret", tr.out.ret)
         \cup B("C14.selected", SelIs(tr, SetOf(tr.pre.sel) \ (SetOf(p.closed) \cup SetOf(p.rolled))))
    [] tr.algo = "SelectTypes" ->
         LET S == {x \in SetOf(p.children) : p.kindok[x]}
         IN  B("C14.ret", tr.out.ret)
             \cup B("C14.selected", SelIs(tr, IF tr.pre.hassel THEN S \cap SetOf(tr.pre.sel) ELSE S))
    [] tr.algo = "ResolveOnTheRun" ->
         \* aliases (ids > K) are replaced by the security the table names for today,
         \* kept only if tradable; other names stay
         LET al   == {x \in SetOf(tr.pre.sel) : x > tr.K}
             res  == Filter(tr, {p.otr[x - tr.K] : x \in al}, p)
         IN  B("C14.ret", tr.out.ret)
             \cup B("C14.selected", tr.out.hassel /\ SetOf(tr.out.sel) = res \cup (SetOf(tr.pre.sel) \ al))
    [] OTHER -> {<<"C14.unknown", 0>>}
=============================================================================
