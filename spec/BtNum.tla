------------------------------ MODULE BtNum ------------------------------
(***************************************************************************)
(* Numeric foundation for the bt specification.                            *)
(*                                                                         *)
(* TLC has 32-bit integers and no reals, and it aborts on overflow.  The   *)
(* ledger of bt is exact rational arithmetic on the scenario lattice (see  *)
(* DESIGN.md section 5), so every quantity is a rational <<n, d>> with     *)
(* d > 0 and gcd(n, d) = 1.  Two special values have d = 0:                *)
(*   NaN == <<1, 0>>   a missing datum (pandas NaN)                        *)
(*   OVF == <<0, 0>>   "this value does not fit 32-bit arithmetic"         *)
(* Every operator is total: OVF and NaN propagate, nothing ever makes TLC  *)
(* abort.  Comparisons are three-valued (Cmp returns 2 for "unknown"), so  *)
(* a trace that leaves the representable range is reported as SKIP by the  *)
(* trace specifications, never as OK or FAIL.                              *)
(***************************************************************************)
EXTENDS Integers, Sequences, FiniteSets, TLC

MaxI == 2147483647

Abs(x)  == IF x < 0 THEN -x ELSE x
Sign(x) == IF x > 0 THEN 1 ELSE IF x < 0 THEN -1 ELSE 0
Min(a, b) == IF a <= b THEN a ELSE b
Max(a, b) == IF a >= b THEN a ELSE b

RECURSIVE GCD(_, _)
GCD(a, b) == IF b = 0 THEN a ELSE GCD(b, a % b)       \* a, b >= 0

MulOK(a, b) == a = 0 \/ b = 0 \/ Abs(a) <= MaxI \div Abs(b)
AddOK(a, b) == IF a >= 0 THEN b <= MaxI - a ELSE b >= (-MaxI) - a

NaN == <<1, 0>>
OVF == <<0, 0>>
Bad(x)   == x[2] <= 0
IsNaN(x) == x = NaN
IsOvf(x) == x = OVF
\* <<fix, -1>>: an observed float that is not within the decoding tolerance of any
\* lattice point; fix = the float in units of 1e-4, kept for a coarse comparison
IsInx(x) == x[2] = -1
BadOf(x, y) == IF x = OVF \/ y = OVF \/ IsInx(x) \/ IsInx(y) THEN OVF ELSE NaN

Norm(n, d) ==                                          \* d # 0
  LET g == GCD(Abs(n), Abs(d))
      s == IF d < 0 THEN -1 ELSE 1
  IN  <<s * (n \div g), s * (d \div g)>>

R(n)  == <<n, 1>>
Zero  == <<0, 1>>
One   == <<1, 1>>
Rat(n, d) == IF d = 0 THEN NaN ELSE Norm(n, d)

IsZero(x) == x = Zero
RSign(x)  == IF Bad(x) THEN 2 ELSE Sign(x[1])
IsInt(x)  == x[2] = 1

RNeg(x) == IF Bad(x) THEN x ELSE <<-x[1], x[2]>>
RAbs(x) == IF Bad(x) THEN x ELSE <<Abs(x[1]), x[2]>>

RAdd(x, y) ==
  IF Bad(x) \/ Bad(y) THEN BadOf(x, y) ELSE
  LET g == GCD(x[2], y[2])
      a == y[2] \div g
      b == x[2] \div g
  IN  IF ~MulOK(x[1], a) \/ ~MulOK(y[1], b) \/ ~MulOK(x[2], a) THEN OVF ELSE
      LET p == x[1] * a
          q == y[1] * b
      IN  IF ~AddOK(p, q) THEN OVF ELSE Norm(p + q, x[2] * a)

RSub(x, y) == RAdd(x, RNeg(y))

RMul(x, y) ==
  IF Bad(x) \/ Bad(y) THEN BadOf(x, y) ELSE
  IF x[1] = 0 \/ y[1] = 0 THEN Zero ELSE
  LET g1 == GCD(Abs(x[1]), y[2])
      g2 == GCD(Abs(y[1]), x[2])
      a  == x[1] \div g1
      b  == y[1] \div g2
      c  == x[2] \div g2
      d  == y[2] \div g1
  IN  IF ~MulOK(a, b) \/ ~MulOK(c, d) THEN OVF ELSE <<a * b, c * d>>

RInv(x) == IF Bad(x) THEN x ELSE IF x[1] = 0 THEN NaN
           ELSE IF x[1] < 0 THEN <<-x[2], -x[1]>> ELSE <<x[2], x[1]>>
RDiv(x, y) == RMul(x, RInv(y))

\* three-valued comparison: -1, 0, 1, or 2 when unknown (NaN / overflow)
Cmp(x, y) ==
  IF Bad(x) \/ Bad(y) THEN 2 ELSE
  IF x = y THEN 0 ELSE
  IF x[2] = y[2] THEN (IF x[1] < y[1] THEN -1 ELSE 1) ELSE
  IF Sign(x[1]) # Sign(y[1]) THEN (IF x[1] < y[1] THEN -1 ELSE 1) ELSE
  IF ~MulOK(x[1], y[2]) \/ ~MulOK(y[1], x[2]) THEN 2 ELSE
  LET l == x[1] * y[2]
      r == y[1] * x[2]
  IN  IF l < r THEN -1 ELSE IF l > r THEN 1 ELSE 0

RLt(x, y) == Cmp(x, y) = -1
RLe(x, y) == Cmp(x, y) \in {-1, 0}
RGt(x, y) == Cmp(x, y) = 1
RGe(x, y) == Cmp(x, y) \in {0, 1}
Known(x, y) == Cmp(x, y) # 2

RFloor(x) == x[1] \div x[2]                 \* TLC's \div floors; x must be good
RCeil(x)  == -((-x[1]) \div x[2])

\* (a comparison that does not fit the representable range is unknown, not "greater")
RMin(x, y) == IF Cmp(x, y) = 2 THEN (IF IsNaN(x) \/ IsNaN(y) THEN NaN ELSE OVF) ELSE IF RLe(x, y) THEN x ELSE y
RMax(x, y) == IF Cmp(x, y) = 2 THEN (IF IsNaN(x) \/ IsNaN(y) THEN NaN ELSE OVF) ELSE IF RGe(x, y) THEN x ELSE y

RECURSIVE RSumSeq(_)
RSumSeq(s) == IF s = <<>> THEN Zero ELSE RAdd(s[1], RSumSeq(Tail(s)))

\* sum of f[i] over the elements i of the sequence idx
RECURSIVE RSumOver(_, _)
RSumOver(f, idx) == IF idx = <<>> THEN Zero ELSE RAdd(f[idx[1]], RSumOver(f, Tail(idx)))

(***************************************************************************)
(* Clause verdicts.  A clause compares an observed value with the value    *)
(* the specification derives.  "skip" means the comparison is not          *)
(* decidable in 32-bit rationals or the exact value is finer than the      *)
(* decoding lattice D of the trace (DESIGN.md section 5).                  *)
(***************************************************************************)
ChkEq(obs, exact, D) ==
  IF IsOvf(exact) \/ IsInx(exact) \/ IsOvf(obs) THEN "skip"
  ELSE IF IsNaN(exact) \/ IsNaN(obs) THEN (IF obs = exact THEN "ok" ELSE "fail")
  ELSE IF IsInx(obs) THEN
       \* floating-point noise (e.g. cancellation) may push a correct value off the
       \* decoding tolerance: undecidable when close, a failure when grossly off
       LET e4 == RMul(exact, R(10000))
       IN  IF Bad(e4) THEN "skip"
           ELSE IF Abs(RFloor(e4) - obs[1]) <= 2 THEN "skip" ELSE "fail"
  ELSE IF exact[2] > D THEN "skip"
  ELSE IF obs = exact THEN "ok" ELSE "fail"

\* comparison of two quantities both derived from observations: judged only where
\* the specification's own exact value g of that quantity is on the decoding lattice
\* (an off-lattice truth may decode to a neighbouring lattice point)
ChkEqG(obs, derived, g, D) ==
  IF Bad(g) \/ g[2] > D THEN "skip" ELSE ChkEq(obs, derived, D)

ChkBool(b) == IF b THEN "ok" ELSE "fail"
\* three-valued: c is a Cmp result, allowed the set of accepted outcomes
ChkCmp(c, allowed) == IF c = 2 THEN "skip" ELSE IF c \in allowed THEN "ok" ELSE "fail"

(***************************************************************************)
(* Calendar arithmetic (proleptic Gregorian), used by BtSched.             *)
(* Day numbers count days since 1970-01-01 (Thursday).                     *)
(***************************************************************************)
\* Howard Hinnant's civil_from_days, integer arithmetic only
CivilFromDays(z0) ==
  LET z   == z0 + 719468
      era == (IF z >= 0 THEN z ELSE z - 146096) \div 146097
      doe == z - era * 146097
      yoe == (doe - doe \div 1460 + doe \div 36524 - doe \div 146096) \div 365
      y   == yoe + era * 400
      doy == doe - (365 * yoe + yoe \div 4 - yoe \div 100)
      mp  == (5 * doy + 2) \div 153
      d   == doy - (153 * mp + 2) \div 5 + 1
      m   == IF mp < 10 THEN mp + 3 ELSE mp - 9
  IN  [y |-> IF m <= 2 THEN y + 1 ELSE y, m |-> m, d |-> d]

DaysFromCivil(y0, m, d) ==
  LET y   == IF m <= 2 THEN y0 - 1 ELSE y0
      era == (IF y >= 0 THEN y ELSE y - 399) \div 400
      yoe == y - era * 400
      doy == (153 * (IF m > 2 THEN m - 3 ELSE m + 9) + 2) \div 5 + d - 1
      doe == yoe * 365 + yoe \div 4 - yoe \div 100 + doy
  IN  era * 146097 + doe - 719468

\* ISO weekday 1 = Monday .. 7 = Sunday
IsoWeekday(z) == ((z + 3) % 7) + 1
YearOf(z)    == CivilFromDays(z).y
MonthOf(z)   == CivilFromDays(z).m
QuarterOf(z) == (CivilFromDays(z).m - 1) \div 3 + 1
\* ISO 8601 week: the week's Thursday decides the ISO year
IsoYear(z) == YearOf(z - IsoWeekday(z) + 4)
IsoWeek(z) ==
  LET th == z - IsoWeekday(z) + 4
  IN  (th - DaysFromCivil(YearOf(th), 1, 1)) \div 7 + 1
=============================================================================
