SPECIFICATION Spec
CONSTANTS
  Prices = {3, 7, 10, 50}
  Mults = {1, 2}
  Positions <- PosDef
  Spreads = {0, 2}
  Comms = {"zero", "fix", "unit", "tier", "prop", "sell", "buy"}
  AmtLo <- LoQuick
  AmtHi = 60
INVARIANT Inv_ShippedInClasses
INVARIANT Inv_MaxQOk
CHECK_DEADLOCK FALSE
