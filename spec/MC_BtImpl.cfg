SPECIFICATION Spec
CONSTANTS
  Which = "F2zero"
  MaxOps = 2
  MaxT = 2
  Slice = 1
  Guarded = TRUE
INVARIANT NoOverflowI
INVARIANT Inv_Refines
INVARIANT Inv_C08_NothingBeyondNow
INVARIANT Inv_Flags
PROPERTY Act_C08_UpdateIdempotent
PROPERTY Act_C08_HistoryFrozen
VIEW View
CHECK_DEADLOCK FALSE
