---------------------------- MODULE Trace_BtRisk ----------------------------
EXTENDS BtRisk, Json, IOUtils, TLCExt
Doc    == JsonDeserialize(IOEnv.TRACE_FILE)
Traces == Doc.traces
VARIABLES tid, done
vars == <<tid, done>>
Init == tid \in 1..Len(Traces) /\ done = FALSE
\* F5: the hedge ignores the instrument's multiplier
KF(tr) == IF tr.what = "hedge" /\ \E s \in 1..Len(tr.inst) : tr.mult[tr.inst[s]] # One THEN "F5" ELSE "none"
Next ==
  /\ ~done
  /\ LET tr == Traces[tid]
         bad == IF tr.exc # "none" THEN {<<"C20.raised", 0, 0>>} ELSE Judge(tr)
         short == {<<b[1], b[2]>> : b \in bad}
         onlyK15 == bad # {} /\ \A b \in bad : b[1] = "K15.history"
         kf == IF onlyK15 THEN "K15" ELSE KF(tr)
     IN  PrintT(<<"V", tr.tid, IF bad = {} THEN "OK" ELSE IF kf # "none" /\ tr.exc = "none" THEN "KNOWN" ELSE "FAIL",
                  1, short, IF bad # {} /\ tr.exc = "none" THEN kf ELSE "none">>)
  /\ done' = TRUE /\ UNCHANGED tid
Spec == Init /\ [][Next]_vars
=============================================================================
