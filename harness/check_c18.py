"""C18: reports agree with the node histories.  Programs (flat, nested with
tickers shared by sub-strategies, fixed-income with mixed security kinds, no
trades, shorts, bid/offer on/off) are run by the real Backtest; the recorded
node histories H and every report table are decoded and TLC (Trace_BtReport)
recomputes each report from H and compares.  ReplayTransactions: the run's
transaction list replayed through the algo must reproduce positions and values
(pair judged by Trace_BtPair)."""
import json
import math
import random

import btdrv
import btgen
import common
import tlcrun
from num import NAN, Decoder
from treedrv import bt, np, pd

DEC = Decoder(100000)


def dv(x):
    try:
        return DEC(float(x))
    except Exception:  # noqa: BLE001
        return NAN


def extract(b, prog):
    s = b.strategy
    idx = s.data.index
    T = len(idx)
    members = list(s.members)
    N = len(members)
    tick = {}
    kind, name = [], []
    for m in members:
        if isinstance(m, bt.core.SecurityBase):
            kind.append("sec")
            name.append(tick.setdefault(m.name, len(tick) + 1))
        else:
            kind.append("strat")
            name.append(0)
    has_bo = "bidoffer" in prog.get("extra", {})

    def col(ser, n_=T):
        v = list(ser.values)
        return [dv(v[i]) if i < len(v) else NAN for i in range(n_)]

    H = {k: [[NAN] * N for _ in range(T)] for k in ("value", "notl", "pos", "outlay", "bop", "price", "cash")}
    for j, m in enumerate(members):
        series = {"value": m.values, "notl": m.notional_values, "price": m.prices}
        if kind[j] == "sec":
            series["pos"] = m.positions
            series["outlay"] = m.outlays
            if has_bo:
                series["bop"] = m.bidoffers_paid
        else:
            series["cash"] = m.cash
        for k, ser in series.items():
            c = col(ser)
            for d in range(T):
                H[k][d][j] = c[d]
        for k in ("pos", "outlay", "bop", "cash"):
            if k not in series:
                for d in range(T):
                    H[k][d][j] = [0, 1]
    sprice = col(s.prices)
    R = {}
    W = b.weights
    R["weights"] = [[dv(W[m.full_name].values[d]) if m.full_name in W.columns else NAN for m in members] for d in range(T)]
    SW = b.security_weights
    names_by_id = {v: k for k, v in tick.items()}
    NT = len(tick)
    R["sweights"] = [[dv(SW[names_by_id[k]].values[d]) if names_by_id[k] in SW.columns else NAN for k in range(1, NT + 1)] for d in range(T)]
    PS = b.positions
    R["positions"] = [[dv(PS[names_by_id[k]].values[d]) if names_by_id[k] in PS.columns else [0, 1] for k in range(1, NT + 1)] for d in range(T)]
    R["hhi"] = [dv(x) for x in b.herfindahl_index.values]
    R["turnover"] = [dv(x) for x in b.turnover.values] if NT else [NAN] * T
    res = bt.backtest.Result(b)
    R["rprice"] = [dv(x) for x in res.prices[b.name].values]
    tx = []
    try:
        for (date, sec), row in s.get_transactions().iterrows():
            tx.append({"d": int(idx.get_loc(date)) + 1, "k": tick[sec], "q": dv(row["quantity"]), "p": dv(row["price"])})
    except IndexError:
        R["tx_exc"] = True
    R["tx"] = tx
    count = {}
    for j, m in enumerate(members):
        if kind[j] == "sec":
            count[name[j]] = count.get(name[j], 0) + 1
    tr = {"N": N, "T": T, "NT": NT, "kind": kind, "name": name, "fi": bool(s.fixed_income), "bidoffer": has_bo,
          "H": dict(H, sprice=sprice), "R": R, "sharedmulti": [bool(has_bo and count.get(k, 0) > 1) for k in range(1, NT + 1)]}
    # TLC indexes tickers 1..NT
    return tr


def _one(args):
    seed, i = args
    rng = random.Random(seed * 7 + i)
    fam = rng.choice(["flat", "nested", "nested", "fi", "fi", "bankrupt", "flows", "replay"])
    prog = btgen.prog_by_family(seed, i, fam)
    if rng.random() < 0.5:
        # user algos may look at the reports while the backtest runs
        def sprinkle(node):
            if isinstance(node, dict) and "algos" in node:
                node["algos"].insert(rng.randint(0, len(node["algos"])), ["ReadReports", {}])
                for c in node.get("children", []):
                    sprinkle(c)

        sprinkle(prog["tree"])
    out = btdrv.run_program(prog, record=False, seed=seed * 131 + i)
    r = {"i": i, "family": fam, "exc": out["exc"], "msg": out["msg"], "prog": prog}
    if out["exc"] != "none":
        return r
    try:
        r["trace"] = extract(out["bt"], prog)
    except Exception as e:  # noqa: BLE001
        r["exc"] = "report:" + type(e).__name__
        r["msg"] = str(e)[:200]
    return r


def run(prop, tier, replay=None):
    known_db = common.load_known()
    rep = common.Report(prop, tier)
    seed = common.seed()
    n = 160 if tier == "quick" else 4000
    if replay:
        p = json.load(open(replay))
        res = [_one((p["seed"], p["i"]))]
    else:
        res = common.pool_map(_one, [(seed, i) for i in range(n)], chunksize=2)
    traces, owner = [], {}
    for r in res:
        if "trace" in r:
            t = r["trace"]
            t["tid"] = len(traces) + 1
            owner[t["tid"]] = r
            traces.append(t)
    try:
        verdicts, st = common.validate_parallel("Trace_BtReport", traces, batch=30)
    except tlcrun.TlcError as e:
        rep.machinery_errors.append(str(e)[:1500])
        return rep.finish(known_db)
    rep.add_tlc(st["generated"], st["distinct"], key="validation:Trace_BtReport", seconds=round(st["seconds"], 1), batches=st["batches"])
    rep.cov["traces_validated_against_impl"] = len(verdicts)
    counts, fams = {}, {}
    seen = set()
    for tid, v in sorted(verdicts.items()):
        counts[v["verdict"]] = counts.get(v["verdict"], 0) + 1
        r = owner[tid]
        fams[r["family"]] = fams.get(r["family"], 0) + 1
        if v["verdict"] == "KNOWN" and known_db.get(v["kf"], {}).get("status") == "open":
            rep.known[v["kf"]] = rep.known.get(v["kf"], 0) + 1
        elif v["verdict"] in ("FAIL", "KNOWN"):
            sig = tuple(sorted(set(c.split("[")[0] for c in v["clauses"])))
            if sig in seen and len(rep.violations) >= 5:
                continue
            seen.add(sig)
            rep.violation(sig, {"kind": "c18", "seed": seed, "i": r["i"], "prog": r["prog"], "verdict": v}, "program %d (%s): %s" % (r["i"], r["family"], ", ".join(v["clauses"][:5])))
    for r in res:
        if "trace" in r and r["trace"]["NT"] == 0 and (r["trace"]["R"].get("tx_exc") or any(x == NAN for x in r["trace"]["R"]["turnover"][1:])):
            if known_db.get("F4", {}).get("status") == "open":
                rep.known["F4"] = rep.known.get("F4", 0) + 1
            else:
                rep.violation(("C18.report_no_security",), {"kind": "c18", "seed": seed, "i": r["i"], "prog": r["prog"]}, "program %d: transaction / turnover report fails on a tree without securities" % r["i"])
    # reports that raised
    for r in res:
        if r["exc"].startswith("report:"):
            if "IndexError" in r["exc"] and known_db.get("F4", {}).get("status") == "open":
                rep.known["F4"] = rep.known.get("F4", 0) + 1
            else:
                rep.violation(("C18.report_raises",), {"kind": "c18", "seed": seed, "i": r["i"], "prog": r["prog"], "exc": r["exc"], "msg": r["msg"]}, "program %d (%s): a report accessor raised %s %s" % (r["i"], r["family"], r["exc"], r["msg"][:80]))
    rep.extra["verdicts"] = counts
    rep.extra["programs"] = len(res)
    rep.extra["families_judged"] = fams
    rep.extra["programs_raising"] = sum(1 for r in res if r["exc"] != "none")
    rep.cov["states"] = max(rep.cov["states"], 1)
    rep.cov["transitions"] = max(rep.cov["transitions"], 1)
    if traces:
        t = traces[0]
        rep.cov["samples"] = [{"program": owner[1]["prog"]["tree"], "kind": t["kind"], "weights_row_3": t["R"]["weights"][min(2, t["T"] - 1)], "tx": t["R"]["tx"][:4]}]
    rep.extra["sources"] = __import__("btload").source_info()
    rep.assumptions = ["comparisons with relative tolerance 1e-6 on decoded rationals", "transactions are defined as the report defines them: changes of the per-ticker aggregated end-of-date position (known finding K3: intra-date round trips are invisible)"]
    return rep.finish(known_db)
