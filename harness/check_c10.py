"""C10: (A) generated well-formed backtests of every program family complete,
record only finite numbers and every report accessor returns; (B) each
enumerated ill-formed class is instantiated on the real classes together with
its well-formed neighbours and must raise exactly when the class predicate
Raises holds (TLC, BtRun / Trace_BtRun); (C) tree-level histories that walk
into ill-formed states (positions held into missing / zero / missing-after-zero
prices) are judged by Trace_BtAbs (clauses C10.noraise / C10.mustraise /
C10.finite)."""
import itertools
import json
import math
import random

import btdrv
import btgen
import common
import tlcrun
from treedrv import bt, np, pd

core, A = bt.core, bt.algos
DTS = pd.date_range("2010-01-04", periods=4)


def feat(cls, **kw):
    d = {"class": cls, "amount_nonzero": False, "price": "ok", "position_open": False, "flag": False, "flag2": False, "raised": False, "finite": True, "reports": True, "kf": "none"}
    d.update(kw)
    return d


def pval(state, base=10.0):
    return {"ok": base, "nan": float("nan"), "zero": 0.0}[state]


def run_class(c):
    cls = c["class"]
    try:
        if cls == "trade_price":
            data = pd.DataFrame({"a": [10.0, pval(c["price"]), 10.0, 10.0], "b": [5.0] * 4}, index=DTS)
            s = bt.Strategy("s", children=["a", "b"])
            s.setup(data)
            s.adjust(1000.0)
            s.update(DTS[0])
            s.update(DTS[1])
            how = c.get("how", "allocate")
            amt = 100.0 if c["amount_nonzero"] else 0.0
            if how == "allocate":
                s.allocate(amt, "a")
            else:
                s.rebalance(0.1 if c["amount_nonzero"] else 0.0, "a")
            s.update(DTS[1])
            _ = s.value
        elif cls == "hold_price":
            tail = {"ok": [11.0, 12.0], "nan": [float("nan"), float("nan")], "zero": [0.0, 0.0]}[c["price"]]
            pre = c.get("pre", [])
            col = [10.0] + [float(x) for x in pre] + tail
            idx = pd.date_range("2010-01-04", periods=len(col))
            data = pd.DataFrame({"a": col, "b": [5.0] * len(col)}, index=idx)
            s = bt.Strategy("s", children=["a", "b"])
            s.setup(data)
            s.adjust(1000.0)
            s.update(idx[0])
            if c["position_open"]:
                s.allocate(500.0, "a")
            for d in idx[1:]:
                s.update(d)
                s.update(d)
                _ = s.value
        elif cls == "hold_coupon":
            idx = DTS
            data = pd.DataFrame({"a": [100.0] * 4}, index=idx)
            cp = pd.DataFrame({"a": [0.5, 0.5, float("nan") if c["price"] == "nan" else 0.5, 0.5]}, index=idx)
            s = bt.FixedIncomeStrategy("s", children=[core.CouponPayingSecurity("a")])
            s.setup(data, coupons=cp)
            s.update(idx[0])
            if c["position_open"]:
                s.transact(100.0, "a")
            for d in idx[1:]:
                s.update(d)
                _ = s.value
        elif cls == "dup_ticker":
            cols = ["a", "a"] if c["flag"] else ["a", "b"]
            data = pd.DataFrame([[10.0, 11.0]] * 4, index=DTS, columns=cols)
            b = bt.Backtest(bt.Strategy("s", [A.SelectAll(), A.WeighEqually(), A.Rebalance()]), data)
            b.run()
        elif cls == "zero_base":
            data = pd.DataFrame({"a": [10.0, 12.0, 12.0, 12.0]}, index=DTS)
            sub = bt.Strategy("k", children=["a"])
            s = bt.Strategy("s", children=[sub])
            s.setup(data)
            s.adjust(1000.0)
            s.update(DTS[0])
            k = s["k"]
            if not c["flag"]:
                k.allocate(500.0)  # funded first: a non-zero base
            if c["amount_nonzero"]:
                k.transact(10.0, "a")
            s.update(DTS[0])
            s.update(DTS[1])
            _ = s.value
        elif cls == "fi_child":
            data = pd.DataFrame({"a": [100.0] * 4}, index=DTS)
            kid = (core.FixedIncomeStrategy if c["flag"] else bt.Strategy)("k", children=["a"])
            par = (core.FixedIncomeStrategy if c["flag2"] else bt.Strategy)("s", children=[kid])
            par.setup(data)
            par.update(DTS[0])
        elif cls == "custom_price":
            data = pd.DataFrame({"a": [10.0] * 4}, index=DTS)
            s = bt.Strategy("s", children=["a"])
            kw = {"bidoffer": pd.DataFrame({"a": [0.0] * 4}, index=DTS)} if c["flag"] else {}
            s.setup(data, **kw)
            s.adjust(1000.0)
            s.update(DTS[0])
            s.allocate(0.0, "a")
            # any bespoke price: above / below mid, a fraction, zero, negative
            s["a"].transact(float(c.get("q", 5.0)), price=float(c.get("custom", 10.5)))
            s.update(DTS[0])
            _ = s.value
        elif cls == "dup_child":
            how = c.get("how", "strings")
            if how == "strings":
                bt.Strategy("s", children=["a", "a"] if c["flag"] else ["a", "b"])
            elif how == "nodes":
                bt.Strategy("s", children=[core.Security("a"), core.Security("a" if c["flag"] else "b")])
            else:
                bt.Strategy("s", children=[bt.Strategy("k"), bt.Strategy("k" if c["flag"] else "j")])
        c["raised"] = False
    except Exception as e:  # noqa: BLE001
        c["raised"] = True
        c["exc"] = type(e).__name__ + ": " + str(e)[:90]
    return c


def class_cases():
    out = []
    for price, nz, how in itertools.product(["ok", "nan", "zero"], [True, False], ["allocate", "rebalance"]):
        out.append(feat("trade_price", price=price, amount_nonzero=nz, how=how))
    for price, held in itertools.product(["ok", "nan", "zero"], [True, False]):
        for pre in ([], [11], [0], [0, 0], [11, 0, 0]):
            out.append(feat("hold_price", price=price, position_open=held, pre=pre))
    for price, held in itertools.product(["ok", "nan"], [True, False]):
        out.append(feat("hold_coupon", price=price, position_open=held))
    for f in (True, False):
        out.append(feat("dup_ticker", flag=f))
        for cp in (10.5, 9.0, 0.25, 0.0, -1.0, 10.0):
            for q in (5.0, -3.0):
                out.append(feat("custom_price", flag=f, custom=cp, q=q))
        for how in ("strings", "nodes", "strats"):
            out.append(feat("dup_child", flag=f, how=how))
        for nz in (True, False):
            out.append(feat("zero_base", flag=f, amount_nonzero=nz))
        for f2 in (True, False):
            out.append(feat("fi_child", flag=f, flag2=f2))
    return out


def finite_backtest(b):
    """every recorded number is finite (security prices are inputs: they may be
    missing before a listing and on the pre-start row)"""
    s = b.strategy
    for m in s.members:
        if isinstance(m, core.SecurityBase):
            sers = [m.values, m.positions, m.outlays]
        else:
            sers = [m.values, m.prices, m.cash, m.fees, m.flows]
        for ser in sers:
            if not np.all(np.isfinite(np.asarray(ser.values, dtype=float))):
                return False
    return True


def reports_ok(b):
    try:
        b.weights
        b.security_weights
        b.positions
        b.herfindahl_index
        b.turnover
        r = bt.backtest.Result(b)
        r.prices
        r.stats
        r.get_weights()
        r.get_security_weights()
        r.get_transactions()
        return True, ""
    except Exception as e:  # noqa: BLE001
        return False, type(e).__name__ + ": " + str(e)[:80]


K1_MSGS = ("The difference between what we have raised", "Newton Method like root search", "Potentially infinite loop")


def _prog(args):
    seed, i = args
    fam = ["lookback", "flat", "nested", "flows", "fi", "bankrupt", "nested09"][i % 7]
    prog = btgen.prog_by_family(seed, i, fam)
    out = btdrv.run_program(prog, record=False, seed=seed * 131 + i)
    c = feat("program", family=fam, i=i)
    c["raised"] = out["exc"] != "none"
    c["exc"] = out["exc"] + ": " + out["msg"][:90]
    if c["raised"]:
        if any(m in out["msg"] for m in K1_MSGS):
            c["kf"] = "K1d"  # sizing search raise (one of the K1 raise classes)
        elif "No solution found" in out["msg"]:
            c["class"] = "skip"  # ffn's ERC solver on degenerate data: outside bt
        elif out["exc"] == "ZeroDivisionError" and "Could not update" in out["msg"]:
            # the program ran into 'return on a zero base' (e.g. fees paid while the
            # notional is still zero): one of the enumerated ill-formed situations
            c["class"] = "zero_base"
            c["flag"] = True
            c["amount_nonzero"] = True
    else:
        c["finite"] = finite_backtest(out["bt"])
        ok, msg = reports_ok(out["bt"])
        c["reports"] = ok
        if not ok:
            c["exc"] = msg
            if "IndexError" in msg and not out["bt"].strategy.securities:
                c["kf"] = "F4"
    c["prog"] = prog
    return c


def run(prop, tier, replay=None):
    import check_tree

    known_db = common.load_known()
    rep = common.Report(prop, tier)
    seed = common.seed()
    # (C) tree-level histories that walk into ill-formed states
    kw = dict(nops=12, allow_illformed=True, late=True, delist=True)
    ntree = 200 if tier == "quick" else 3000
    traces = common.pool_map(check_tree._run_one_fast, [(seed, i, kw, 0.2) for i in range(ntree)])
    traces = [t for t in traces if "setup_exc" not in t]
    slim = [{"tid": t["tid"], "C": t["C"], "events": t["events"]} for t in traces]
    try:
        verdicts, st = common.validate_parallel("Trace_BtAbs", slim)
    except tlcrun.TlcError as e:
        rep.machinery_errors.append(str(e)[:1500])
        return rep.finish(known_db)
    rep.add_tlc(st["generated"], st["distinct"], key="validation:Trace_BtAbs(ill-formed tails)", seconds=round(st["seconds"], 1), batches=st["batches"])
    rep.cov["traces_validated_against_impl"] = len(verdicts)
    check_tree.classify(rep, prop, traces, verdicts, known_db)
    rep.extra["tree_histories_ending_in_expected_raise"] = sum(1 for t in traces if t["events"] and t["events"][-1]["exc"] != "none" and verdicts[t["tid"]]["verdict"] == "OK")
    # (B) enumerated classes, (A) generated programs
    cases = [run_class(c) for c in class_cases()]
    nprog = 210 if tier == "quick" else 5000
    progs = common.pool_map(_prog, [(seed, i) for i in range(nprog)], chunksize=2)
    allc = cases + [p for p in progs if p["class"] != "skip"]
    tl = []
    for i, c in enumerate(allc):
        t = {k: c[k] for k in ("class", "amount_nonzero", "price", "position_open", "flag", "flag2", "raised", "finite", "reports", "kf")}
        t["tid"] = i + 1
        tl.append(t)
    try:
        v2, st2 = common.validate_parallel("Trace_BtRun", tl, batch=400)
    except tlcrun.TlcError as e:
        rep.machinery_errors.append(str(e)[:1500])
        return rep.finish(known_db)
    rep.add_tlc(st2["generated"], st2["distinct"], key="validation:Trace_BtRun", seconds=round(st2["seconds"], 1), batches=st2["batches"])
    rep.cov["traces_validated_against_impl"] += len(v2)
    counts = {}
    seen = set()
    for tid, v in sorted(v2.items()):
        counts[v["verdict"]] = counts.get(v["verdict"], 0) + 1
        c = allc[tid - 1]
        if v["verdict"] == "KNOWN" and known_db.get(v["kf"], {}).get("status") == "open":
            rep.known[v["kf"]] = rep.known.get(v["kf"], 0) + 1
        elif v["verdict"] in ("FAIL", "KNOWN"):
            sig = (c["class"], tuple(v["clauses"]), c.get("family"))
            if sig in seen and len(rep.violations) >= 8:
                continue
            seen.add(sig)
            payload = {"kind": "c10", "case": {k: x for k, x in c.items() if k != "prog"}, "prog": c.get("prog"), "verdict": v}
            rep.violation(sig, payload, "%s %s: %s (%s)" % (c["class"], {k: c[k] for k in ("price", "position_open", "amount_nonzero", "flag", "flag2") if k in c} if c["class"] != "program" else c.get("family"), ", ".join(v["clauses"]), c.get("exc", "")))
    rep.extra["class_and_program_verdicts"] = counts
    rep.extra["ill_formed_class_cases"] = len(cases)
    rep.extra["programs"] = len(progs)
    rep.extra["programs_skipped_numeric"] = sum(1 for p in progs if p["class"] == "skip")
    rep.cov["samples"] = [{k: x for k, x in cases[2].items()}, {k: x for k, x in progs[0].items() if k != "prog"}]
    rep.extra["sources"] = __import__("btload").source_info()
    rep.assumptions = ["installed pandas / numpy as reported in sources; interpreted build", "programs whose run fails inside ffn's ERC solver ('No solution found') are not judged (numerical optimiser on degenerate windows)"]
    return rep.finish(known_db)
