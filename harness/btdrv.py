"""Backtest-level driver: builds a real bt.Backtest from a *program* (tree of
strategies with stock-algo stacks, data tables, settings), runs it under a
recorder that logs every outermost tree-API call per root (the main tree and
each paper-trading shadow of a sub-strategy) together with the observation on
a deep copy, and returns traces in the Trace_BtAbs format plus the finished
backtest (for report / pair checks).

Program format (JSON-able):
  {"T": n, "cols": [...], "px": {col: [ints or None]}, "start": "2010-01-04", "freq": "B",
   "extra": {"bidoffer": {col: [...]}, "signal": {...}, "weights": {...}, ...},
   "tree": {"name": "r", "algos": [[AlgoName, {params}], ...], "children": [ "a", {"name": "k", ...}, {"sec": "x", "kind": "cpsec", "mult": 1} ], "fi": false},
   "bt": {"capital": 10000, "integer": true, "comm": {"k":..., "a":..., "b":...}}}
"""
import copy
import math
import random

import treedrv
from num import NAN, Decoder, rat, to_float
from treedrv import bt, np, pd

core = bt.core
algos = bt.algos

Z = [0, 1]


# --------------------------------------------------------------------------
# custom (user-level) helper algos used by generated programs
# --------------------------------------------------------------------------
class SetCash(core.Algo):
    """temp['cash'] = c  (the optional cash fraction Rebalance honours)"""

    def __init__(self, c, start=0):
        super().__init__()
        self.c = c
        self.start = start  # only from this row of the data on

    def __call__(self, target):
        if self.start:
            try:
                if int(target.data.index.get_loc(target.now)) < self.start:
                    return True
            except Exception:  # noqa: BLE001
                return True
        target.temp["cash"] = self.c
        return True


class DeferredTrade(core.Algo):
    """A user algo whose last action of the day is a trade with update=False and
    no closing update of its own (the engine's update after run() closes it)."""

    def __init__(self, ticker, q=None, amount=None):
        super().__init__()
        self.ticker, self.q, self.amount = ticker, q, amount

    def __call__(self, target):
        target._create_child_if_needed(self.ticker)
        c = target.children[self.ticker]
        p = target.universe.loc[target.now, self.ticker] if self.ticker in target.universe.columns else float("nan")
        if not (p == p) or p <= 0:
            return True
        if self.q is not None:
            c.transact(float(self.q), update=False)
        else:
            c.allocate(float(self.amount), update=False)
        return True


class DeferredFlow(core.Algo):
    """A user algo that books a capital flow with update=False and leaves the closing
    update to the engine."""

    def __init__(self, amount, flow=True):
        super().__init__()
        self.amount, self.flow = amount, flow

    def __call__(self, target):
        target.adjust(float(self.amount), update=False, flow=bool(self.flow))
        return True


class ReadReports(core.Algo):
    """A user algo that looks at the public report properties of its strategy in
    the middle of a run (reads are transparent: C08; the final reports: C18)."""

    def __init__(self, what=("positions", "outlays", "values", "universe", "prices", "cash")):
        super().__init__()
        self.what = tuple(what)

    def __call__(self, target):
        for w in self.what:
            try:
                getattr(target, w)
            except Exception:  # noqa: BLE001 - e.g. bid/offer accounting not turned on
                pass
        return True


class Spy(core.Algo):
    """Records (date, strategy name) of every call; returns a fixed value."""

    def __init__(self, log, ret=True, tag="spy"):
        super().__init__()
        self.log = log
        self.ret = ret
        self.tag = tag

    def __call__(self, target):
        self.log.append((self.tag, target.name, target.now))
        return self.ret


def frame(prog, table, with_cols=None):
    """table: {col: [values]}; an optional "__idx__": [data row numbers] makes
    the frame sparser than the calendar (only those dates are present)."""
    idx = dates_of(prog)
    lead = int(table.get("__lead__", 0))
    if lead:  # history published before the first date of the price data
        idx = pd.DatetimeIndex([idx[0] - pd.DateOffset(days=k) for k in range(lead, 0, -1)]).append(idx)
    cols = with_cols or [c for c in table.keys() if c not in ("__idx__", "__lead__")]
    df = pd.DataFrame({c: [float("nan") if v is None else (v if isinstance(v, bool) else float(v)) for v in table[c]] for c in cols}, index=idx)
    if "__idx__" in table:
        df = df.iloc[list(table["__idx__"])]
    return df


def dates_of(prog):
    if "dates" in prog:
        return pd.DatetimeIndex(prog["dates"])
    return pd.date_range(prog.get("start", "2010-01-04"), periods=prog["T"], freq=prog.get("freq", "B"))


def make_algo(name, params, prog, spylog=None):
    p = dict(params or {})
    A = algos

    def off(k, default=None):
        v = p.pop(k, default)
        return None if v is None else pd.DateOffset(days=v)

    if name == "SetCash":
        return SetCash(p["c"], p.get("start", 0))
    if name == "DeferredFlow":
        return DeferredFlow(p["amount"], p.get("flow", True))
    if name == "DeferredTrade":
        return DeferredTrade(p["ticker"], q=p.get("q"), amount=p.get("amount"))
    if name == "ReadReports":
        return ReadReports(**p)
    if name == "Spy":
        return Spy(spylog if spylog is not None else [], p.get("ret", True), p.get("tag", "spy"))
    if name in ("RunDaily", "RunWeekly", "RunMonthly", "RunQuarterly", "RunYearly"):
        return getattr(A, name)(**p)
    if name == "RunOnce":
        return A.RunOnce()
    if name == "RunOnDate":
        idx = dates_of(prog)
        return A.RunOnDate(*[idx[i] for i in p["idx"]])
    if name == "RunAfterDate":
        return A.RunAfterDate(dates_of(prog)[p["idx"]])
    if name == "RunAfterDays":
        return A.RunAfterDays(p["days"])
    if name == "RunEveryNPeriods":
        return A.RunEveryNPeriods(p["n"], p.get("offset", 0))
    if name == "SelectAll":
        return A.SelectAll(**p)
    if name == "SelectThese":
        return A.SelectThese(list(p["tickers"]), **{k: v for k, v in p.items() if k != "tickers"})
    if name == "SelectHasData":
        return A.SelectHasData(lookback=off("lookback", 2), min_count=p.pop("min_count", 1), **p)
    if name == "SelectMomentum":
        return A.SelectMomentum(p.pop("n"), lookback=off("lookback", 2), lag=off("lag", 0), **p)
    if name == "SelectN":
        return A.SelectN(**p)
    if name == "SetStat":
        return A.SetStat(p["stat"], lag=off("lag", 0))
    if name == "StatTotalReturn":
        return A.StatTotalReturn(lookback=off("lookback", 2), lag=off("lag", 0))
    if name == "SelectWhere":
        return A.SelectWhere(p.pop("signal"), **p)
    if name == "SelectRandomly":
        return A.SelectRandomly(**p)
    if name == "SelectRegex":
        return A.SelectRegex(p["regex"])
    if name == "WeighEqually":
        return A.WeighEqually()
    if name == "WeighSpecified":
        return A.WeighSpecified(**{k: float(v) for k, v in p["w"].items()})
    if name == "WeighTarget":
        return A.WeighTarget(p["weights"])
    if name == "WeighRandomly":
        return A.WeighRandomly(**p)
    if name == "WeighInvVol":
        return A.WeighInvVol(lookback=off("lookback", 4), lag=off("lag", 0))
    if name == "WeighERC":
        return A.WeighERC(lookback=off("lookback", 4), lag=off("lag", 0), covar_method="standard", **p)
    if name == "WeighMeanVar":
        return A.WeighMeanVar(lookback=off("lookback", 4), lag=off("lag", 0), covar_method="standard", **p)
    if name == "TargetVol":
        return A.TargetVol(p.pop("vol"), lookback=off("lookback", 4), lag=off("lag", 0), covar_method="standard", **p)
    if name == "PTE_Rebalance":
        return A.PTE_Rebalance(p["cap"], frame(prog, prog["extra"][p["weights"]]), lookback=off("lookback", 4), lag=off("lag", 0), covar_method="standard", annualization_factor=p.get("af", 1))
    if name == "ScaleWeights":
        return A.ScaleWeights(p["scale"])
    if name == "LimitDeltas":
        return A.LimitDeltas(p["limit"])
    if name == "LimitWeights":
        return A.LimitWeights(p["limit"])
    if name == "Rebalance":
        return A.Rebalance()
    if name == "RebalanceOverTime":
        return A.RebalanceOverTime(p["n"])
    if name == "CapitalFlow":
        return A.CapitalFlow(p["amount"])
    if name == "CloseDead":
        return A.CloseDead()
    if name == "SetNotional":
        return A.SetNotional(p["notional"])
    if name == "Or":
        return A.Or([make_algo(n, q, prog, spylog) for n, q in p["algos"]])
    if name == "Not":
        return A.Not(make_algo(p["algo"][0], p["algo"][1], prog, spylog))
    if name == "run_always":
        return A.run_always(make_algo(p["algo"][0], p["algo"][1], prog, spylog))
    if name == "ReplayTransactions":
        return A.ReplayTransactions(p["transactions"])
    if name == "ClosePositionsAfterDates":
        return A.ClosePositionsAfterDates(p["close_dates"])
    if name == "RollPositionsAfterDates":
        return A.RollPositionsAfterDates(p["roll_data"])
    if name == "SelectActive":
        return A.SelectActive()
    if name == "SelectTypes":
        return A.SelectTypes()
    if name == "UpdateRisk":
        return A.UpdateRisk(p["measure"], history=p.get("history", 0))
    if name == "HedgeRisks":
        return A.HedgeRisks(p["measures"], pseudo=p.get("pseudo", False))
    raise ValueError("unknown algo %s" % name)


KIND_CLS = treedrv.KIND_CLS


def build_node(desc, prog, spylog=None, lazy=True):
    """desc -> bt node (strategy with algo stack, or security)."""
    if isinstance(desc, str):
        return desc if lazy else core.Security(desc)
    if "sec" in desc:
        cls = getattr(core, KIND_CLS[desc.get("kind", "sec")])
        return cls(desc["sec"], multiplier=desc.get("mult", 1))
    kids = [build_node(c, prog, spylog, lazy) for c in desc.get("children", [])]
    stack = [make_algo(n, q, prog, spylog) for n, q in desc.get("algos", [])]
    cls = core.FixedIncomeStrategy if desc.get("fi") else core.Strategy
    if cls is core.FixedIncomeStrategy:
        return cls(desc["name"], algos=stack, children=kids or None)
    return cls(desc["name"], algos=stack, children=kids or None)


def header(prog, desc=None, capital_paper=False):
    """The configuration C (Trace_BtAbs header) of the tree rooted at desc."""
    desc = desc or prog["tree"]
    T = prog["T"] + 1
    names, kinds, par, mult, fi = [], [], [], [], []
    cols = prog["cols"]

    def walk(d, parent):
        i = len(names)
        names.append(d["name"])
        kinds.append("strat")
        par.append(parent + 1 if parent is not None else 1)
        mult.append([1, 1])
        fi.append(bool(d.get("fi")))
        ch = d.get("children", [])
        secs = []
        for c in ch:
            if isinstance(c, str):
                secs.append((c, "sec", 1))
            elif "sec" in c:
                secs.append((c["sec"], c.get("kind", "sec"), c.get("mult", 1)))
        if not ch:
            secs = [(c, "sec", 1) for c in cols]
        for nm, k, m in secs:
            if nm not in cols:
                continue
            names.append(nm)
            kinds.append(k)
            par.append(i + 1)
            mult.append(rat(m))
            fi.append(k in ("cpsec", "cphedge"))
        for c in ch:
            if isinstance(c, dict) and "sec" not in c:
                walk(c, i)

    walk(desc, None)
    N = len(names)
    kids = [[] for _ in range(N)]
    for i in range(1, N):
        kids[par[i] - 1].append(i + 1)
    ex = prog.get("extra", {})

    def tab(key, default):
        out = []
        for i in range(N):
            if kinds[i] == "strat":
                out.append([])
            else:
                src = prog["px"] if key == "px" else ex.get(key, {})
                col = src.get(names[i])
                if col is None:
                    out.append([NAN if key == "px" else default] + [default] * (T - 1))
                else:
                    # (the engine prepends a NaN row to every frame it is given)
                    out.append([NAN if key in ("px", "bidoffer") else default] + [NAN if v is None else rat(v) for v in col])
        return out

    comm = prog["bt"].get("comm") or {"k": "zero", "a": Z, "b": Z}
    return {
        "tree": "prog",
        "N": N,
        "kind": kinds,
        "par": par,
        "kids": kids,
        "names": names,
        "mult": mult,
        "fi": fi,
        "T": T,
        "px": tab("px", Z),
        "spread": tab("bidoffer", Z),
        "coupon": tab("coupons", Z),
        "costl": tab("cost_long", NAN),
        "costs": tab("cost_short", NAN),
        "comm": [comm if kinds[i] == "strat" else {"k": "zero", "a": Z, "b": Z} for i in range(N)],
        "integer": bool(prog["bt"].get("integer", True)),
        "bidoffer": "bidoffer" in ex,
        "D": prog.get("D", 50000),
        "DW": prog.get("DW", 200000),
        "paper": False,
    }


def sub_descs(desc, path=()):
    """(path of names, desc) for every non-root strategy of the tree."""
    out = []
    for c in desc.get("children", []):
        if isinstance(c, dict) and "sec" not in c:
            out.append((path + (c["name"],), c))
            out.extend(sub_descs(c, path + (c["name"],)))
    return out


# --------------------------------------------------------------------------
# recording session: wrappers around the public tree API
# --------------------------------------------------------------------------
SESSION = None


class RootLog:
    def __init__(self, C, root, dts, label, impl=False):
        self.rec = treedrv.Recorder(C, root=root, dts=dts, impl=impl)
        self.depth = 0
        self.label = label
        self.index = {}
        names = C["names"]
        for i in range(C["N"]):
            pth = []
            j = i
            while True:
                pth.append(names[j])
                if j == 0:
                    break
                j = C["par"][j] - 1
            self.index[">".join(reversed(pth))] = i + 1
        self.dead = False  # stop recording after a bankruptcy / raise

    def idx(self, node):
        return self.index.get(node.full_name, 0)

    def child_idx(self, node, name):
        return self.index.get(node.full_name + ">" + name, 0)


class Session:
    def __init__(self, prog, algo_events=("Rebalance", "RebalanceOverTime")):
        self.prog = prog
        self.logs = {}
        self.algo_events = set(algo_events)
        self.amt = Decoder(prog.get("D", 50000))
        self.wdec = Decoder(1000, tol=1e-12)
        self.spylog = []
        self.order = []
        self.impl = False  # also snapshot the private state (Trace_BtImpl conformance)

    def register(self, root, C, label):
        lg = RootLog(C, root, self.dts, label, impl=self.impl and label == "main")
        self.logs[id(root)] = lg
        self.order.append(lg)
        return lg


def _opdict(sess, lg, cls, meth, self_, a, k):
    """Translate a public call into the event schema (None: not recorded)."""
    d = lg.rec.dec
    get = lambda i, name, dflt: (a[i] if len(a) > i else k.get(name, dflt))  # noqa: E731
    if cls == "strat":
        if meth == "adjust":
            return {"op": "adjust", "node": lg.idx(self_), "a": d(get(0, "amount", 0.0)), "upd": bool(get(1, "update", True)), "flow": bool(get(2, "flow", True)), "b": d(get(3, "fee", 0.0))}
        if meth == "allocate":
            child = get(1, "child", None)
            if child is None:
                return {"op": "allocate", "node": lg.idx(self_), "a": d(get(0, "amount", 0.0)), "upd": bool(get(2, "update", True))}
            return {"op": "allocate", "node": lg.child_idx(self_, child), "a": d(get(0, "amount", 0.0)), "upd": True}
        if meth == "transact":
            child = get(1, "child", None)
            if child is None:
                return {"op": "transact", "node": lg.idx(self_), "a": d(get(0, "q", 0.0)), "b": NAN, "upd": bool(get(2, "update", True))}
            return {"op": "transact", "node": lg.child_idx(self_, child), "a": d(get(0, "q", 0.0)), "b": NAN, "upd": True}
        if meth == "rebalance":
            w = get(0, "weight", 0.0)
            base = get(2, "base", float("nan"))
            return {"op": "rebalance", "node": lg.idx(self_), "child": lg.child_idx(self_, get(1, "child", None)), "a": sess.wdec(w), "b": NAN if (isinstance(base, float) and math.isnan(base)) else d(base), "upd": bool(get(3, "update", True))}
        if meth == "close":
            return {"op": "close", "node": lg.idx(self_), "child": lg.child_idx(self_, get(0, "child", None)), "upd": bool(get(1, "update", True))}
        if meth == "flatten":
            return {"op": "flatten", "node": lg.idx(self_)}
        if meth == "update":
            date = get(0, "date", None)
            try:
                i = int(lg.rec.dts.get_loc(date)) + 1
            except Exception:  # noqa: BLE001
                i = 0
            return {"op": "update", "date": i, "node": lg.idx(self_)}
    else:
        if meth == "allocate":
            return {"op": "allocate", "node": lg.idx(self_), "a": d(get(0, "amount", 0.0)), "upd": bool(get(1, "update", True))}
        if meth == "transact":
            price = get(3, "price", None)
            return {"op": "transact", "node": lg.idx(self_), "a": d(get(0, "q", 0.0)), "b": NAN if price is None else d(price), "upd": bool(get(1, "update", True))}
    return None


def _wrap(klass, meth, cls):
    orig = getattr(klass, meth)
    if getattr(orig, "_btverif", False):
        return

    def wrapper(self, *a, **k):
        sess = SESSION
        if sess is None:
            return orig(self, *a, **k)
        lg = sess.logs.get(id(self.root))
        if lg is None or lg.dead:
            return orig(self, *a, **k)
        if lg.depth > 0:
            lg.depth += 1
            try:
                return orig(self, *a, **k)
            finally:
                lg.depth -= 1
        lg.depth = 1
        t0 = len(treedrv.TRADELOG)
        exc = "none"
        try:
            return orig(self, *a, **k)
        except Exception as e:  # noqa: BLE001
            exc = type(e).__name__
            lg.rec.exc_msg = str(e)[:200]
            raise
        finally:
            lg.depth = 0
            trades = [t for t in treedrv.TRADELOG[t0:] if t[0] in lg.index]
            op = _opdict(sess, lg, cls, meth, self, a, k)
            if op is not None and (op.get("node", 1) == 0 or (op["op"] in ("rebalance", "close") and op.get("child", 1) == 0)):
                lg.dead = True  # a node the header does not know (created behind the recorder's back): stop here
                op = None
            if op is not None:
                saved = list(treedrv.TRADELOG)
                ev = lg.rec.finish_event(op, exc, trades=trades)
                treedrv.TRADELOG[:] = saved
                if ev["exc"] != "none" or ev["bankrupt"]:
                    lg.dead = ev["exc"] != "none"

    wrapper._btverif = True
    setattr(klass, meth, wrapper)


def _wrap_setup():
    orig = core.StrategyBase.setup
    if getattr(orig, "_btverif", False):
        return

    def setup(self, universe, **kwargs):
        sess = SESSION
        if sess is not None:
            sess.setup_depth = getattr(sess, "setup_depth", 0) + 1
        try:
            r = orig(self, universe, **kwargs)
        finally:
            if sess is not None:
                sess.setup_depth -= 1
        if sess is not None and sess.setup_depth == 0 and getattr(sess, "main", None) is None and self.parent is self and getattr(sess, "expect_main", False):
            sess.expect_main = False
            sess.main = self
            sess.dts = universe.index
            sess.register(self, header(sess.prog), "main")
            # paper-trading shadows of first-level and deeper sub-strategies
            for pth, d in sub_descs(sess.prog["tree"]):
                node = self
                try:
                    for nm in pth:
                        node = node.children[nm]
                    paper = node._paper
                except Exception:  # noqa: BLE001
                    continue
                hd = header(sess.prog, d)
                hd["paper"] = True
                hd["D"] = 1000  # the shadow trades a million: doubles resolve 1e-10 there
                lg = sess.register(paper, hd, "paper:" + ">".join(pth))
                # the shadow was funded inside setup, before it could be recorded
                saved = list(treedrv.TRADELOG)
                lg.rec.finish_event({"op": "adjust", "node": 1, "a": rat(int(node._paper_amount)), "flow": True, "upd": True}, "none", trades=[])
                treedrv.TRADELOG[:] = saved
        return r

    setup._btverif = True
    core.StrategyBase.setup = setup


def _wrap_algo(klass):
    orig = klass.__call__
    if getattr(orig, "_btverif", False):
        return
    name = klass.__name__

    def call(self, target):
        sess = SESSION
        lg = None if sess is None else sess.logs.get(id(getattr(target, "root", None)))
        if lg is None or lg.dead or name not in sess.algo_events:
            return orig(self, target)
        _algo_event(sess, lg, "algo_enter", name, self, target, None)
        ret = None
        try:
            ret = orig(self, target)
            return ret
        finally:
            if not lg.dead:
                _algo_event(sess, lg, "algo_exit", name, self, target, ret)

    call._btverif = True
    klass.__call__ = call


def _algo_event(sess, lg, kind, name, algo, target, ret):
    w = []
    tw = target.temp.get("weights") if hasattr(target, "temp") else None
    if tw is not None:
        try:
            items = list(tw.items())
        except Exception:  # noqa: BLE001
            items = []
        for k_, v in items:
            i = lg.child_idx(target, k_)
            if i:
                w.append([i, sess.wdec(v)])
    cash = target.temp.get("cash") if hasattr(target, "temp") else None
    ntl = target.temp.get("notional_value") if hasattr(target, "temp") else None
    extra = {"algo": name, "w": w, "wcash": NAN if cash is None else sess.wdec(cash), "wnotl": NAN if ntl is None else lg.rec.dec(float(ntl)), "ret": bool(ret) if ret is not None else False, "hasw": tw is not None}
    op = {"op": kind, "node": lg.idx(target), "upd": False}
    saved = list(treedrv.TRADELOG)
    lg.rec.finish_event(op, "none", trades=[], extra=extra)
    treedrv.TRADELOG[:] = saved


def _wrap_run():
    orig = core.Strategy.run
    if getattr(orig, "_btverif", False):
        return

    def run(self):
        sess = SESSION
        lg = None if sess is None else sess.logs.get(id(self.root))
        if lg is not None and not lg.dead:
            saved = list(treedrv.TRADELOG)
            lg.rec.finish_event({"op": "run", "node": lg.idx(self), "upd": False}, "none", trades=[])
            treedrv.TRADELOG[:] = saved
        return orig(self)

    run._btverif = True
    core.Strategy.run = run


def install():
    _wrap_run()
    for m in ("adjust", "allocate", "transact", "rebalance", "close", "flatten", "update"):
        _wrap(core.StrategyBase, m, "strat")
    for m in ("allocate", "transact"):
        _wrap(core.SecurityBase, m, "sec")
    _wrap_setup()
    for klass in (algos.Rebalance, algos.RebalanceOverTime):
        _wrap_algo(klass)


install()


def build_extras(prog):
    """The additional_data of a program (frames, series, blotters, reference tables)."""
    ex = {}
    for k, v in prog.get("extra", {}).items():
        if isinstance(v, dict) and v.get("__series__"):
            ex[k] = pd.Series([float("nan") if x is None else float(x) for x in v["values"]], index=dates_of(prog))
        elif isinstance(v, dict) and v.get("__raw__") is not None:
            ex[k] = v["__raw__"]
        elif isinstance(v, dict) and v.get("__bydate__"):
            # a table indexed by ticker with a date column given as a data row number
            dts_ = dates_of(prog)
            rows = v["rows"]  # {ticker: {"date": row, ...other columns}}

            def dt_(r):
                return dts_[r] if r < len(dts_) else dts_[-1] + pd.DateOffset(days=30)

            cols_ = sorted({c_ for r in rows.values() for c_ in r})
            ex[k] = pd.DataFrame({c_: [(dt_(r[c_]) if c_ == "date" else r[c_]) for r in rows.values()] for c_ in cols_}, index=list(rows.keys()))
            if "date" in ex[k].columns:
                ex[k]["date"] = pd.to_datetime(ex[k]["date"])
        elif isinstance(v, dict) and v.get("__tx__"):
            # a blotter: [data row, ticker, quantity, price, hours before the close]
            dts_ = dates_of(prog)
            rows = v["rows"]
            idx = pd.MultiIndex.from_tuples([(dts_[r[0]] - pd.DateOffset(hours=int(r[4]) if len(r) > 4 else 0), r[1]) for r in rows], names=["Date", "Security"])
            ex[k] = pd.DataFrame({"quantity": [float(r[2]) for r in rows], "price": [float(r[3]) for r in rows]}, index=idx)
        elif isinstance(v, dict) and v.get("__group__"):
            ex[k] = {m: frame(prog, tab) for m, tab in v["frames"].items()}
        elif isinstance(v, dict):
            ex[k] = frame(prog, v)
        else:
            ex[k] = v
    return ex


def run_program(prog, record=True, tid0=0, lazy=True, seed=None, impl=False):
    """Build and run the backtest of a program.  Returns dict with the finished
    backtest object ('bt'), the traces (one per recorded root), spy log, and
    'exc' if construction / run raised."""
    global SESSION
    sess = Session(prog)
    sess.impl = bool(impl)
    out = {"traces": [], "spy": sess.spylog, "exc": "none", "msg": ""}
    if seed is not None:
        random.seed(seed)
        np.random.seed(seed % (2**32))
    try:
        strat = build_node(prog["tree"], prog, sess.spylog, lazy=lazy)
        data = frame(prog, prog["px"], prog["cols"])
        ex = build_extras(prog)
        fn = treedrv.comm_fn(prog["bt"]["comm"]) if prog["bt"].get("comm") else None
        b = bt.Backtest(strat, data, initial_capital=float(prog["bt"].get("capital", 10000)), commissions=fn, integer_positions=bool(prog["bt"].get("integer", True)), additional_data=ex or None)
        out["bt"] = b
        if record:
            SESSION = sess
            sess.expect_main = True
            sess.main = None
        del treedrv.TRADELOG[:]
        b.run()
    except Exception as e:  # noqa: BLE001
        out["exc"] = type(e).__name__
        out["msg"] = str(e)[:300]
    finally:
        SESSION = None
    for i, lg in enumerate(sess.order):
        r = lg.rec
        out["traces"].append({"tid": tid0 + i + 1, "C": r.C, "events": r.events, "label": lg.label, "meta": {"exc_msg": getattr(r, "exc_msg", "")}})
    return out
