"""Tree-level driver: builds a real bt tree from a configuration C, executes an
operation history through the public API and records, after every outermost
call, the projection of the tree the properties talk about.  All reads are
made on a deep copy, so observing never perturbs the run (DESIGN.md 4.2).

A scenario is {"C": {...}, "ops": [...]}; the recorded trace is
{"tid", "C", "events"} in the format Trace_BtAbs.tla consumes.
"""
import copy
import math
import zlib

import btload
from num import NAN, OVF, Decoder, frac, rat, to_float

bt = btload.load()
import numpy as np  # noqa: E402
import pandas as pd  # noqa: E402

TRADELOG = []


def _install_trade_logger():
    """Wrap SecurityBase.transact (class attribute, so calls made inside the
    library go through it too) to log every executed trade (full name, q)."""
    core = bt.core
    if getattr(core.SecurityBase.transact, "_btverif_tradelog", False):
        return
    orig = core.SecurityBase.transact

    def transact(self, q, *a, **k):
        pos0 = self._position
        try:
            return orig(self, q, *a, **k)
        finally:
            if self._position != pos0:
                if len(TRADELOG) > 5000:  # nobody is consuming (an unrecorded tree): do not grow
                    del TRADELOG[:]
                TRADELOG.append((self.full_name, float(self._position - pos0)))

    transact._btverif_tradelog = True
    core.SecurityBase.transact = transact


_install_trade_logger()

KIND_CLS = {
    "sec": "Security",
    "fisec": "FixedIncomeSecurity",
    "cpsec": "CouponPayingSecurity",
    "hedge": "HedgeSecurity",
    "cphedge": "CouponPayingHedgeSecurity",
}


def dates_for(T):
    return pd.date_range("2010-01-04", periods=T, freq="B")


def comm_fn(m):
    k = m["k"]
    a = to_float(m["a"])
    b = to_float(m["b"])
    if k == "zero":
        return lambda q, p: 0.0
    if k == "fix":
        return lambda q, p: a
    if k == "unit":
        return lambda q, p: a * abs(q)
    if k == "tier":
        return lambda q, p: max(a, b * abs(q))
    if k == "prop":
        return lambda q, p: a * abs(q) * p
    if k == "sell":  # a levy on sales only
        return lambda q, p: a * abs(q) * p if q < 0 else 0.0
    if k == "buy":  # a duty on purchases only
        return lambda q, p: a * abs(q) * p if q > 0 else 0.0
    raise ValueError(k)


def table(C, key, names, idx):
    cols = {}
    for n in range(C["N"]):
        if C["kind"][n] != "strat":
            col = [to_float(v) for v in C[key][n]]
            if key in ("costl", "costs") and all(math.isnan(v) for v in col):
                continue  # no such column: the cost is simply not supplied
            cols[names[n]] = col
    # shared tickers: same name in several sub-strategies -> one column
    return pd.DataFrame(cols, index=idx)


def node_names(C):
    return C["names"]


def build(C, lazy=False):
    """Construct and set up the real tree.  Returns (root, objs, dates) where
    objs[i] is the node object (or None for a not yet created lazy child)."""
    core = bt.core
    N = C["N"]
    names = node_names(C)
    dts = dates_for(C["T"])
    objs = [None] * N

    def make(i):
        kind = C["kind"][i]
        if kind == "strat":
            kids = []
            for k in C["kids"][i]:
                k0 = k - 1
                if lazy and C["kind"][k0] == "sec" and to_float(C["mult"][k0]) == 1.0:
                    kids.append(names[k0])
                else:
                    kids.append(make(k0))
            cls = core.FixedIncomeStrategy if (C["fi"][i] and True) else core.Strategy
            if cls is core.FixedIncomeStrategy:
                node = cls(names[i], children=kids)
            else:
                node = cls(names[i], children=kids)
            return node
        cls = getattr(core, KIND_CLS[kind])
        return cls(names[i], multiplier=to_float(C["mult"][i]))

    root = make(0)
    data = table(C, "px", names, dts)
    kwargs = {}
    if C["bidoffer"]:
        kwargs["bidoffer"] = table(C, "spread", names, dts)
    if any(k in ("cpsec", "cphedge") for k in C["kind"]):
        kwargs["coupons"] = table(C, "coupon", names, dts)
        kwargs["cost_long"] = table(C, "costl", names, dts)
        kwargs["cost_short"] = table(C, "costs", names, dts)
    root.use_integer_positions(bool(C["integer"]))
    root.setup(data, **kwargs)
    # commission functions, top-down (set_commissions pushes to sub-strategies)
    resolve(root, C, objs)
    for i in range(N):
        if C["kind"][i] == "strat" and objs[i] is not None:
            fn = comm_fn(C["comm"][i])
            if fn is not None:
                objs[i].set_commissions(fn)
    return root, objs, dts


def resolve(root, C, objs):
    """(Re)bind node indices to live objects by path of names."""
    names = node_names(C)
    objs[0] = root
    for i in range(1, C["N"]):
        p = objs[C["par"][i] - 1]
        objs[i] = None if p is None else p.children.get(names[i])
    return objs


SERIES_STRAT = ("values", "notional_values", "cash", "fees", "flows")
SERIES_SEC = ("values", "notional_values", "positions", "outlays")


def _row(series, inow):
    v = series.values
    if inow < 0 or len(v) <= inow:
        return float("nan")
    return float(v[inow])


def _digest(acc, name, key, series, upto):
    v = series.values
    for i in range(min(upto, len(v))):
        x = float(v[i])
        if x != 0.0 and not math.isnan(x):
            acc ^= zlib.crc32(("%s|%s|%d|%s" % (name, key, i, x.hex())).encode())
    return acc


def raw_observe(root, C, dts, fresh, prev_inow):
    """Read the public projection from (a clone of) the tree.  Returns a dict
    of raw floats; decoding happens later."""
    N = C["N"]
    objs = resolve(root, C, [None] * N)
    now = root.now
    inow = -1 if (isinstance(now, int) and now == 0) else int(dts.get_loc(now))
    o = {"inow": inow}
    if fresh and inow >= 0:
        root.value  # a fresh read: settles pending changes (on the clone) first
        objs = resolve(root, C, [None] * N)
    o["cash"] = [float(objs[i].capital) if (C["kind"][i] == "strat" and objs[i] is not None) else 0.0 for i in range(N)]
    o["pos"] = [float(objs[i].position) if (C["kind"][i] != "strat" and objs[i] is not None) else 0.0 for i in range(N)]
    o["bankrupt"] = bool(root.bankrupt)
    if not fresh or inow < 0:
        return o
    val, wgt, notl = [], [], []
    for i in range(N):
        n = objs[i]
        if n is None:
            val.append(0.0)
            wgt.append(0.0)
            notl.append(0.0)
        else:
            val.append(float(n.value))
            wgt.append(float(n.weight))
            notl.append(float(n.notional_value))
    o["val"], o["wgt"], o["notl"] = val, wgt, notl
    rows = {k: [0.0] * N for k in ("value", "cash", "pos", "notl", "fees", "flows", "outl", "bop", "cpn", "hc")}
    prev = {k: [0.0] * N for k in rows}
    lastidx = -1
    chk_now = 0
    chk_prev = 0
    has_bo = bool(C["bidoffer"])
    for i in range(N):
        n = objs[i]
        if n is None:
            continue
        if C["kind"][i] == "strat":
            ser = {"value": n.values, "notl": n.notional_values, "cash": n.cash, "fees": n.fees, "flows": n.flows}
            if has_bo:
                ser["bop"] = n.bidoffers_paid
            lastidx = max(lastidx, len(n.prices) - 1)
        else:
            ser = {"value": n.values, "notl": n.notional_values, "pos": n.positions, "outl": n.outlays}
            if has_bo:
                ser["bop"] = n.bidoffers_paid
            if C["kind"][i] in ("cpsec", "cphedge"):
                ser["cpn"] = n.coupons
                ser["hc"] = n.holding_costs
            lastidx = max(lastidx, len(n.prices) - 1)
        for k, s in ser.items():
            rows[k][i] = _row(s, inow)
            if prev_inow is not None and 0 <= prev_inow < inow:
                prev[k][i] = _row(s, prev_inow)
            lastidx = max(lastidx, len(s) - 1)
            chk_now = _digest(chk_now, n.full_name, k, s, inow)
            if prev_inow is not None and prev_inow >= 0:
                chk_prev = _digest(chk_prev, n.full_name, k, s, prev_inow)
    o["rows"] = rows
    o["prev"] = prev
    o["lastidx"] = lastidx
    o["chk_now"] = chk_now & 0x3FFFFFFF
    o["chk_prev"] = chk_prev & 0x3FFFFFFF
    pr = root.prices
    p_now = _row(pr, inow)
    # the index level at the previous date the tree was updated on (100 before any)
    if prev_inow is None or prev_inow < 0:
        p_before = 100.0
    elif prev_inow < inow:
        p_before = _row(pr, prev_inow)
    else:
        p_before = float("nan")  # same date: filled in by the recorder
    o["same_date"] = prev_inow is not None and prev_inow == inow
    o["price"] = p_now
    o["pprice"] = p_before
    return o


IMPL_ROWS_STRAT = {"value": "value", "price": "price", "cash": "cash", "fees": "fees", "flows": "flows", "bop": "bidoffer_paid"}
IMPL_ROWS_SEC = {"value": "value", "pos": "position", "outl": "outlay", "bop": "bidoffer_paid"}


def impl_eligible(C, lazy):
    """Trees inside the scope of the implementation-shaped model BtImpl."""
    return (not lazy) and not any(C["fi"]) and all(k in ("strat", "sec") for k in C["kind"]) and not C.get("paper")


def impl_snapshot(root, C, dts, dec, decw):
    """The private fields of the live tree that BtImpl models, read without
    touching any property (no lazy update is triggered).  Floats are decoded."""
    N = C["N"]
    objs = resolve(root, C, [None] * N)
    T = C["T"]

    def idx(now):
        return 0 if (isinstance(now, int) and now == 0) else int(dts.get_loc(now)) + 1

    z = [0, 1]
    o = {"stale": bool(root.stale), "bankrupt": bool(root.bankrupt)}
    for k in ("now", "cap", "val", "ntl", "wgt", "prc", "lval", "lprc", "nfl", "lfee", "bop", "bo", "pos", "lpos", "out"):
        o[k] = []
    o["need"] = []
    rows = {k: [] for k in ("value", "price", "cash", "fees", "flows", "bop", "pos", "outl")}
    for i in range(N):
        n = objs[i]
        strat = C["kind"][i] == "strat"
        o["now"].append(idx(n.now))
        o["val"].append(dec(float(n._value)))
        o["ntl"].append(dec(float(n._notl_value)))
        o["wgt"].append(decw(float(n._weight)))
        o["bop"].append(dec(float(n._bidoffer_paid)))
        if strat:
            o["cap"].append(dec(float(n._capital)))
            o["prc"].append(decw(float(n._price)))
            o["lval"].append(dec(float(n._last_value)))
            o["lprc"].append(decw(float(n._last_price)))
            o["nfl"].append(dec(float(n._net_flows)))
            o["lfee"].append(dec(float(n._last_fee)))
            o["bo"].append(z)
            o["pos"].append(z)
            o["lpos"].append(z)
            o["out"].append(z)
            o["need"].append(False)
            cols = IMPL_ROWS_STRAT
        else:
            o["cap"].append(z)
            o["prc"].append(dec(float(n._price)))
            o["lval"].append(z)
            o["lprc"].append([100, 1])
            o["nfl"].append(z)
            o["lfee"].append(z)
            o["bo"].append(dec(float(n._bidoffer)))
            o["pos"].append(dec(float(n._position)))
            o["lpos"].append(dec(float(n._last_pos)))
            o["out"].append(dec(float(n._outlay)))
            o["need"].append(bool(n._needupdate))
            cols = IMPL_ROWS_SEC
        for k in rows:
            col = cols.get(k)
            if col is None or col not in n.data.columns:
                rows[k].append([z] * T)
            else:
                d_ = decw if (k == "price") else dec
                rows[k].append([d_(float(v)) for v in n.data[col].values[:T]])
    o["rows"] = rows
    return o


class Recorder:
    """Executes ops on a live tree and records one event per outermost call."""

    def __init__(self, C, lazy=False, root=None, dts=None, impl=False):
        self.C = C
        self.impl = bool(impl) and impl_eligible(C, lazy)
        if root is None:
            self.root, self.objs, self.dts = build(C, lazy=lazy)
        else:  # record an existing tree (backtest-level driver)
            self.root, self.dts = root, dts
            self.objs = resolve(root, C, [None] * C["N"])
        self.dec = Decoder(C["D"])
        self.decw = Decoder(C["DW"])
        self.events = []
        self.raws = {}
        self.base_price = 100.0
        self.prev_raw = None
        self.prev_inow = None  # date index at the previous event
        self.last_date_inow = None  # date index before the most recent date change

    def node(self, i):
        resolve(self.root, self.C, self.objs)
        return self.objs[i - 1]

    def _call(self, op):
        k = op["op"]
        C = self.C
        names = node_names(C)
        upd = bool(op.get("upd", True))
        if k == "adjust":
            self.node(op["node"]).adjust(to_float(op["a"]), update=upd, flow=bool(op["flow"]), fee=to_float(op.get("b", [0, 1])))
        elif k == "update":
            self.root.update(self.dts[op["date"] - 1])
        elif k == "read":
            n = self.node(op["node"])
            getattr(n if n is not None else self.root, op.get("prop", "value"))
        elif k == "allocate":
            i = op["node"]
            if C["kind"][i - 1] == "strat":
                self.node(i).allocate(to_float(op["a"]), update=upd)
            else:
                par = self.node(C["par"][i - 1])
                if upd:
                    par.allocate(to_float(op["a"]), child=names[i - 1])
                else:
                    par._create_child_if_needed(names[i - 1])
                    par.children[names[i - 1]].allocate(to_float(op["a"]), update=False)
        elif k == "transact":
            i = op["node"]
            cp = op.get("b", NAN)
            if C["kind"][i - 1] == "strat":
                self.node(i).transact(to_float(op["a"]), update=upd)
            else:
                par = self.node(C["par"][i - 1])
                par._create_child_if_needed(names[i - 1])
                sec = par.children[names[i - 1]]
                if cp[1] == 0:
                    sec.transact(to_float(op["a"]), update=upd)
                else:
                    sec.transact(to_float(op["a"]), update=upd, price=to_float(cp))
        elif k == "rebalance":
            base = op.get("b", NAN)
            b = float("nan") if base[1] == 0 else to_float(base)
            self.node(op["node"]).rebalance(to_float(op["a"]), names[op["child"] - 1], base=b, update=upd)
        elif k == "close":
            s = self.node(op["node"])
            cname = names[op["child"] - 1]
            if cname in s.children:
                s.close(cname, update=upd)
        elif k == "flatten":
            self.node(op["node"]).flatten()
        else:
            raise ValueError(k)

    def step(self, op):
        exc = "none"
        del TRADELOG[:]
        try:
            self._call(op)
        except Exception as e:  # noqa: BLE001 - the class name is the observation
            exc = type(e).__name__
            self.exc_msg = str(e)[:200]
        return self.finish_event(op, exc)

    def finish_event(self, op, exc, trades=None, extra=None):
        """Observe (on a clone) after an outermost call and append the event."""
        C = self.C
        N = C["N"]
        if trades is not None:
            TRADELOG[:] = trades
        k = op["op"]
        fresh = bool(op.get("upd", True)) or k in ("update", "flatten", "read")
        ev = {
            "op": k,
            "node": op.get("node", 1),
            "child": op.get("child", 1),
            "a": op.get("a", [0, 1]),
            "b": op.get("b", NAN if k in ("transact", "rebalance") else [0, 1]),
            "flow": bool(op.get("flow", True)),
            "upd": bool(op.get("upd", True)),
            "date": op.get("date", 0),
            "exc": exc,
        }
        if extra:
            ev.update(extra)
        if self.impl:
            # private state right after the call returned, before anything is read
            try:
                ev["impl"] = impl_snapshot(self.root, C, self.dts, self.dec, self.decw)
            except Exception as e:  # noqa: BLE001
                ev["impl_error"] = type(e).__name__ + ": " + str(e)[:120]
        if exc != "none":
            ev["fresh"] = False
            ev["trades"] = self._trades()
            self._fill(ev, self._raw_min(), N)
            self.events.append(ev)
            return ev
        pre_trades = list(TRADELOG)
        was_traded = bool(pre_trades)
        clone = copy.deepcopy(self.root)
        dec0 = self.dec.inexact + self.decw.inexact
        obs_exc = "none"
        try:
            raw = raw_observe(clone, C, self.dts, fresh, self.prev_inow)
        except Exception as e:  # noqa: BLE001
            obs_exc = type(e).__name__
            self.exc_msg = str(e)[:200]
            raw = None
        if raw is not None and TRADELOG and not was_traded:
            pass
        n_live = len(pre_trades)
        if len(TRADELOG) > n_live and exc == "none":
            # the fresh read on the clone liquidated a bankrupt tree: the live
            # tree does the same at its next read - make that read now, so
            # that log and live tree stay in step (a read is transparent, C08)
            keep = list(TRADELOG)
            try:
                self.root.value
            except Exception:  # noqa: BLE001
                pass
            TRADELOG[:] = keep
            ev["driver_settled"] = True
        ev["trades"] = self._trades()  # incl. a liquidation done by the fresh read
        if raw is None:
            ev["exc"] = "read:" + obs_exc
            ev["fresh"] = False
            self._fill(ev, self._raw_min(), N)
            self.events.append(ev)
            return ev
        inow = raw["inow"]
        if raw.get("same_date"):
            raw["pprice"] = self.base_price
        elif "pprice" in raw:
            self.base_price = raw["pprice"]
        ev["fresh"] = bool(fresh and inow >= 0)
        rau = True
        same = False
        if ev["fresh"]:
            clone2 = copy.deepcopy(self.root)
            try:
                clone2.update(clone2.now)
                raw2 = raw_observe(clone2, C, self.dts, True, self.prev_inow)
                rau = _same(raw, raw2)
            except Exception:  # noqa: BLE001
                rau = False
            del TRADELOG[:]
            if self.prev_raw is not None and "val" in self.prev_raw:
                same = _same(raw, self.prev_raw)
        ev["rau"] = rau
        ev["same"] = same
        self._fill(ev, raw, N)
        self.raws[len(self.events)] = raw
        ev["inexact"] = self.dec.inexact + self.decw.inexact > dec0
        ev["finite"] = self.dec.nonfinite == 0
        self.events.append(ev)
        if ev["fresh"]:
            self.prev_raw = raw
        if inow >= 0:
            self.prev_inow = inow
        return ev

    def _trades(self):
        C = self.C
        names = node_names(C)
        full = {}
        for i in range(C["N"]):
            path = []
            j = i
            while True:
                path.append(names[j])
                if j == 0:
                    break
                j = C["par"][j] - 1
            full[">".join(reversed(path))] = i + 1
        out = [[full[n], self.dec(q)] for n, q in TRADELOG]
        del TRADELOG[:]
        return out

    def _raw_min(self):
        """capital / position of the live tree (accessors without stale check)."""
        C = self.C
        N = C["N"]
        objs = resolve(self.root, C, [None] * N)
        return {
            "cash": [float(objs[i].capital) if (C["kind"][i] == "strat" and objs[i] is not None) else 0.0 for i in range(N)],
            "pos": [float(objs[i].position) if (C["kind"][i] != "strat" and objs[i] is not None) else 0.0 for i in range(N)],
            "bankrupt": bool(self.root.bankrupt),
        }

    def _fill(self, ev, raw, N):
        d = self.dec
        z = [[0, 1]] * N
        if raw is None:
            ev.update(pos=z, cash=z, bankrupt=False)
        else:
            ev["pos"] = [d(x) for x in raw["pos"]]
            ev["cash"] = [d(x) for x in raw["cash"]]
            ev["bankrupt"] = raw["bankrupt"]
        if raw is not None and "val" in raw:
            ev["val"] = [d(x) for x in raw["val"]]
            ev["wgt"] = [self.decw(x) for x in raw["wgt"]]
            ev["notl"] = [d(x) for x in raw["notl"]]
            # exactly zero, as opposed to floating-point residue that decodes to 0
            ev["vz"] = [x == 0.0 for x in raw["val"]]
            ev["nz"] = [x == 0.0 for x in raw["notl"]]
            ev["rows"] = {k: [d(x) for x in v] for k, v in raw["rows"].items()}
            ev["prev"] = {k: [d(x) for x in v] for k, v in raw["prev"].items()}
            ev["lastidx"] = raw["lastidx"] + 1
            ev["chknow"] = raw["chk_now"]
            ev["chkprev"] = raw["chk_prev"]
            pn, pb = raw["price"], raw["pprice"]
            if self.C["fi"][0]:
                ev["ratio"] = d(pn - pb)
            else:
                ev["ratio"] = self.decw(pn / pb) if pb not in (0.0,) and not math.isnan(pb) else NAN
        else:
            zr = {k: z for k in ("value", "cash", "pos", "notl", "fees", "flows", "outl", "bop", "cpn", "hc")}
            ev.update(val=z, wgt=z, notl=z, rows=zr, prev=zr, lastidx=0, chknow=0, chkprev=0, ratio=[1, 1], vz=[True] * N, nz=[True] * N)
        ev.setdefault("eqbase", True)
        ev.setdefault("rau", True)
        ev.setdefault("same", False)
        ev.setdefault("inexact", False)
        ev.setdefault("finite", True)


def _same(a, b):
    """Exact (bitwise, NaN == NaN) equality of two raw observations."""

    def eq(x, y):
        if isinstance(x, dict):
            return x.keys() == y.keys() and all(eq(x[k], y[k]) for k in x)
        if isinstance(x, list):
            return len(x) == len(y) and all(eq(p, q) for p, q in zip(x, y))
        if isinstance(x, float) and isinstance(y, float):
            # equal up to floating-point re-association (a second update adds the
            # same terms in another order): a few ulps, never a lattice step
            return x == y or (math.isnan(x) and math.isnan(y)) or math.isclose(x, y, rel_tol=1e-11, abs_tol=1e-10)
        return x == y

    keys = [k for k in a if k not in ("chk_prev", "prev", "chk_now", "pprice", "same_date")]
    return all(k in b and eq(a[k], b[k]) for k in keys)


def run_scenario(scn, tid=0, lazy=False, impl=False):
    """Execute a scenario; returns the trace dict (stops at the first raise)."""
    C = scn["C"]
    try:
        rec = Recorder(C, lazy=lazy, impl=impl)
    except Exception as e:  # noqa: BLE001
        return {"tid": tid, "C": C, "events": [], "setup_exc": type(e).__name__ + ": " + str(e)[:200]}
    for op in scn["ops"]:
        ev = rec.step(op)
        if ev["exc"] != "none" or ev["bankrupt"]:
            break
    tr = {"tid": tid, "C": C, "events": rec.events}
    tr["meta"] = {"inexact": rec.dec.inexact + rec.decw.inexact, "worst_residual": max(rec.dec.worst, rec.decw.worst), "exc_msg": getattr(rec, "exc_msg", "")}
    return tr


def run_online(C, gen, tid=0, lazy=False, impl=False):
    """Execute a history produced online by gen (treegen.HistoryGen)."""
    try:
        rec = Recorder(C, lazy=lazy, impl=impl)
    except Exception as e:  # noqa: BLE001
        return {"tid": tid, "C": C, "events": [], "ops": [], "setup_exc": type(e).__name__ + ": " + str(e)[:200]}
    ops = []
    while True:
        op = gen.next_op(rec)
        if op is None:
            break
        ops.append(op)
        ev = rec.step(op)
        if ev["exc"] != "none" or ev["bankrupt"]:
            break  # after a bankruptcy the live tree still has the liquidation pending
    tr = {"tid": tid, "C": C, "events": rec.events, "ops": ops}
    tr["meta"] = {"inexact": rec.dec.inexact + rec.decw.inexact, "worst_residual": max(rec.dec.worst, rec.decw.worst), "exc_msg": getattr(rec, "exc_msg", "")}
    return tr


def run_variant(C, base_ops, rng, tid=0, lazy=False, k=4):
    """C08 pair: the same history with k redundant updates / reads inserted at
    places where the tree may be refreshed without changing the meaning of the
    history (not inside a deferred update=False batch).  Returns (base trace,
    variant trace); variant events carry eqbase = observation identical to the
    base run's observation after the same operation (bitwise)."""
    base = Recorder(C, lazy=lazy)
    ok = True
    for op in base_ops:
        ev = base.step(op)
        if ev["exc"] != "none" or ev["bankrupt"]:
            ok = False
            break
    n = len(base.events)
    # insertion points: after op i (0-based) if the batch is closed there
    pts = []
    deferred = False
    cur = 0
    for i, op in enumerate(base_ops[:n]):
        if op["op"] == "update":
            cur = op["date"]
            deferred = False
        elif not op.get("upd", True) and op["op"] not in ("read", "flatten"):
            deferred = True
        if not deferred and cur > 0 and i < n - 1:
            pts.append((i, cur))
    chosen = sorted(rng.sample(pts, min(k, len(pts)))) if pts else []
    ins = {}
    for i, c in chosen:
        ins.setdefault(i, []).append(c)
    # places right after a position was closed are always tried, with a longer burst
    after_close = [(i, c) for i, c in pts if base_ops[i]["op"] == "close"][:3]
    burst = {i: 2 for i, _ in after_close}
    for i, c in after_close:
        ins.setdefault(i, [c])
    var = Recorder(C, lazy=lazy)
    vops = []
    for i, op in enumerate(base_ops[:n]):
        ev = var.step(op)
        vops.append(op)
        b = base.raws.get(i)
        v = var.raws.get(len(var.events) - 1)
        if b is not None and v is not None and "val" in b and "val" in v:
            ev["eqbase"] = _same(b, v)
        if ev["exc"] != "none" or ev["bankrupt"]:
            break
        for c in ins.get(i, []):
            # a burst of one to three redundant refreshes at this place
            for _ in range(max(burst.get(i, 0), rng.choice([1, 1, 2, 2, 3]))):
                if rng.random() < 0.6:
                    x = {"op": "update", "date": c}
                else:
                    x = {"op": "read", "node": rng.randint(1, C["N"]), "prop": rng.choice(["value", "weight", "notional_value"])}
                var.step(x)
                vops.append(x)
    bt_ = {"tid": tid, "C": C, "events": base.events, "ops": list(base_ops[:n])}
    vt = {"tid": tid + 1, "C": C, "events": var.events, "ops": vops, "variant_of": tid, "base_ops": list(base_ops[:n])}
    return bt_, vt


def run_variant_fixed(C, base_ops, vops, tid=0, lazy=False):
    """Replay of a recorded pair: vops is base_ops with redundant refreshes inserted."""
    base = Recorder(C, lazy=lazy)
    for op in base_ops:
        ev = base.step(op)
        if ev["exc"] != "none" or ev["bankrupt"]:
            break
    var = Recorder(C, lazy=lazy)
    j = 0
    for op in vops:
        ev = var.step(op)
        if j < len(base_ops) and op == base_ops[j]:
            b = base.raws.get(j)
            v = var.raws.get(len(var.events) - 1)
            if b is not None and v is not None and "val" in b and "val" in v:
                ev["eqbase"] = _same(b, v)
            j += 1
        if ev["exc"] != "none" or ev["bankrupt"]:
            break
    return ({"tid": tid, "C": C, "events": base.events, "ops": list(base_ops)},
            {"tid": tid + 1, "C": C, "events": var.events, "ops": list(vops), "variant_of": tid})
