"""Load bt from /repo's *current working tree*, never from the stale compiled
extension that sits next to bt/core.py.

``load()`` installs a meta-path finder that resolves ``bt.core`` to the
interpreted ``bt/core.py`` (Cython's pure-Python shadow module makes the
``cy.declare`` / ``cy.locals`` annotations no-ops), puts the repository root
first on ``sys.path`` and returns the imported ``bt`` package.

``BT_VERIF_REPO`` overrides the repository root (used by the self-tests, which
run the checks against scratch copies with seeded bugs).
"""
import hashlib
import importlib
import importlib.abc
import importlib.util
import os
import sys

REPO = os.environ.get("BT_VERIF_REPO", "/repo")


class _CoreFromSource(importlib.abc.MetaPathFinder):
    def __init__(self, repo):
        self.repo = repo

    def find_spec(self, fullname, path, target=None):
        if fullname == "bt.core":
            p = os.path.join(self.repo, "bt", "core.py")
            return importlib.util.spec_from_file_location(fullname, p)
        return None


_loaded = None
_scratch = None


def _build_compiled(repo):
    """Cythonize the working tree's bt/core.py in a scratch directory (outside
    /repo and /verif) and return that directory; removed at interpreter exit."""
    import atexit
    import shutil
    import subprocess
    import tempfile

    global _scratch
    d = tempfile.mkdtemp(prefix="btverif-build-", dir=os.environ.get("TMPDIR", "/tmp"))
    _scratch = d
    atexit.register(lambda: shutil.rmtree(d, ignore_errors=True) if os.getpid() == _owner else None)
    os.makedirs(os.path.join(d, "bt"))
    for f in ("__init__.py", "core.py", "algos.py", "backtest.py"):
        shutil.copy(os.path.join(repo, "bt", f), os.path.join(d, "bt", f))
    for f in ("setup.py", "README.md"):
        if os.path.exists(os.path.join(repo, f)):
            shutil.copy(os.path.join(repo, f), os.path.join(d, f))
    p = subprocess.run([sys.executable, "setup.py", "build_ext", "--inplace"], cwd=d, capture_output=True, text=True)
    if p.returncode != 0:
        raise RuntimeError("compiled build failed:\n" + p.stdout[-1500:] + p.stderr[-1500:])
    return d


_owner = os.getpid()


def load(repo=None):
    """Import bt (interpreted build) from the working tree; idempotent."""
    global _loaded
    if _loaded is not None:
        return _loaded
    repo = repo or REPO
    sys.dont_write_bytecode = True
    for k in [k for k in sys.modules if k == "bt" or k.startswith("bt.")]:
        del sys.modules[k]
    compiled = os.environ.get("BT_VERIF_BUILD") == "compiled"
    if compiled:
        # the Cython build of the working tree's sources, made fresh for this run
        src = _build_compiled(repo)
    else:
        src = repo
        sys.meta_path.insert(0, _CoreFromSource(repo))
    if src in sys.path:
        sys.path.remove(src)
    sys.path.insert(0, src)
    import warnings

    warnings.filterwarnings("ignore")
    os.environ.setdefault("MPLBACKEND", "Agg")
    bt = importlib.import_module("bt")
    core = importlib.import_module("bt.core")
    if compiled:
        assert core.__file__.endswith(".so") and os.path.realpath(core.__file__).startswith(os.path.realpath(src)), core.__file__
    else:
        assert core.__file__.endswith("core.py"), core.__file__
        assert os.path.realpath(bt.__file__).startswith(os.path.realpath(repo)), bt.__file__
    _loaded = bt
    return bt


def source_info(repo=None):
    repo = repo or REPO
    out = {}
    for f in ("core.py", "algos.py", "backtest.py"):
        with open(os.path.join(repo, "bt", f), "rb") as fh:
            out[f] = hashlib.sha256(fh.read()).hexdigest()[:16]
    import numpy
    import pandas

    out["pandas"] = pandas.__version__
    out["numpy"] = numpy.__version__
    out["python"] = sys.version.split()[0]
    out["repo"] = repo
    out["build"] = "compiled" if os.environ.get("BT_VERIF_BUILD") == "compiled" else "interpreted"
    return out
