"""Load bt from /repo's *current working tree*, never from the stale compiled
extension that sits next to bt/core.py.

``load()`` installs a meta-path finder that resolves ``bt.core`` to the
interpreted ``bt/core.py`` (Cython's pure-Python shadow module makes the
``cy.declare`` / ``cy.locals`` annotations no-ops), puts the repository root
first on ``sys.path`` and returns the imported ``bt`` package.

``BT_VERIF_REPO`` overrides the repository root (used by the self-tests, which
run the checks against scratch copies with seeded bugs).
"""
import hashlib
import importlib
import importlib.abc
import importlib.util
import os
import sys

REPO = os.environ.get("BT_VERIF_REPO", "/repo")


class _CoreFromSource(importlib.abc.MetaPathFinder):
    def __init__(self, repo):
        self.repo = repo

    def find_spec(self, fullname, path, target=None):
        if fullname == "bt.core":
            p = os.path.join(self.repo, "bt", "core.py")
            return importlib.util.spec_from_file_location(fullname, p)
        return None


_loaded = None


def load(repo=None):
    """Import bt (interpreted build) from the working tree; idempotent."""
    global _loaded
    if _loaded is not None:
        return _loaded
    repo = repo or REPO
    sys.dont_write_bytecode = True
    for k in [k for k in sys.modules if k == "bt" or k.startswith("bt.")]:
        del sys.modules[k]
    sys.meta_path.insert(0, _CoreFromSource(repo))
    if repo in sys.path:
        sys.path.remove(repo)
    sys.path.insert(0, repo)
    import warnings

    warnings.filterwarnings("ignore")
    os.environ.setdefault("MPLBACKEND", "Agg")
    bt = importlib.import_module("bt")
    core = importlib.import_module("bt.core")
    assert core.__file__.endswith("core.py"), core.__file__
    assert os.path.realpath(bt.__file__).startswith(os.path.realpath(repo)), bt.__file__
    _loaded = bt
    return bt


def source_info(repo=None):
    repo = repo or REPO
    out = {}
    for f in ("core.py", "algos.py", "backtest.py"):
        with open(os.path.join(repo, "bt", f), "rb") as fh:
            out[f] = hashlib.sha256(fh.read()).hexdigest()[:16]
    import numpy
    import pandas

    out["pandas"] = pandas.__version__
    out["numpy"] = numpy.__version__
    out["python"] = sys.version.split()[0]
    out["repo"] = repo
    return out
