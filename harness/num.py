"""Decoding of observed floats onto the exact lattice (DESIGN.md section 5)."""
import math
from fractions import Fraction

MAXI = 2**31 - 1
NAN = [1, 0]
OVF = [0, 0]


def inx(f):
    """Marker for a float that is not near a lattice point: [round(f*1e4), -1]."""
    v = round(f * 10000.0)
    return [int(v), -1] if abs(v) < MAXI else OVF



class Decoder:
    """Maps floats to [n, d] rationals with d <= D.

    A float is accepted as the rational r only if it lies within a few ulps of
    r (64 ulps, at least 2e-13): doubles carry the exact lattice values of the
    scenarios to about one ulp, so an on-lattice truth always decodes to
    itself, while a value that is *not* on the lattice is very unlikely to sit
    that close to a lattice point and is reported as inexact instead of being
    mistaken for a neighbour.  Requires 1/(2 D^2) > tolerance at the magnitudes
    used (D = 50000 up to ~1e4, D = 1000 up to ~1e6)."""

    def __init__(self, D, tol=None):
        self.D = D
        self.tol = tol
        self.inexact = 0
        self.nonfinite = 0
        self.worst = 0.0

    def __call__(self, f):
        if f is None:
            return NAN
        f = float(f)
        if math.isnan(f):
            return NAN
        if math.isinf(f):
            self.nonfinite += 1
            return OVF
        fr = Fraction(f).limit_denominator(self.D)
        res = abs(float(fr) - f)
        if abs(fr.numerator) > MAXI or fr.denominator > MAXI:
            return OVF
        tol = self.tol if self.tol is not None else max(2e-13, 64.0 * math.ulp(f))
        if res > tol:
            self.inexact += 1
            return inx(f)
        self.worst = max(self.worst, res / max(1.0, abs(f)))
        return [fr.numerator, fr.denominator]


def rat(x):
    """Exact rational literal -> [n, d]."""
    fr = Fraction(x)
    if isinstance(x, float) and fr.denominator > 10**6:
        # a decimal literal such as 0.1 that went through a float: the generator's lattice value
        fr = fr.limit_denominator(10**4)
    return [fr.numerator, fr.denominator]


def to_float(r):
    if r[1] <= 0:
        return float("nan")
    return r[0] / r[1]


def frac(r):
    return Fraction(r[0], r[1])
