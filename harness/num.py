"""Decoding of observed floats onto the exact lattice (DESIGN.md section 5)."""
import math
from fractions import Fraction

MAXI = 2**31 - 1
NAN = [1, 0]
OVF = [0, 0]


def inx(f):
    """Marker for a float that is not near a lattice point: [round(f*1e4), -1]."""
    v = round(f * 10000.0)
    return [int(v), -1] if abs(v) < MAXI else OVF



class Decoder:
    """Maps floats to [n, d] rationals with d <= D; remembers inexact decodes."""

    def __init__(self, D, tol=None):
        self.D = D
        # two distinct rationals with denominators <= D differ by >= 1/D^2, so a
        # float within 1/(4 D^2) of one of them decodes uniquely
        self.tol = tol if tol is not None else 0.45 / (float(D) * D)
        self.inexact = 0
        self.nonfinite = 0
        self.worst = 0.0

    def __call__(self, f):
        if f is None:
            return NAN
        f = float(f)
        if math.isnan(f):
            return NAN
        if math.isinf(f):
            self.nonfinite += 1
            return OVF
        fr = Fraction(f).limit_denominator(self.D)
        res = abs(float(fr) - f)
        scale = max(1.0, abs(f))
        if abs(fr.numerator) > MAXI or fr.denominator > MAXI:
            return OVF
        if res > self.tol:
            self.inexact += 1
            return inx(f)
        self.worst = max(self.worst, res / scale)
        return [fr.numerator, fr.denominator]


def rat(x):
    """Exact rational literal -> [n, d]."""
    fr = Fraction(x)
    return [fr.numerator, fr.denominator]


def to_float(r):
    if r[1] <= 0:
        return float("nan")
    return r[0] / r[1]


def frac(r):
    return Fraction(r[0], r[1])
