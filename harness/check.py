"""Entry point: ./check <ID> [--tier quick|thorough] [--replay PATH]"""
import argparse
import os
import sys

sys.path.insert(0, os.path.dirname(os.path.abspath(__file__)))

TREE = ("C01", "C02", "C03", "C07", "C08", "C16", "C17")


def main():
    ap = argparse.ArgumentParser()
    ap.add_argument("prop")
    ap.add_argument("--tier", default=os.environ.get("VERIF_TIER", "quick"), choices=["quick", "thorough"])
    ap.add_argument("--replay")
    ap.add_argument("--setup", action="store_true")
    a = ap.parse_args()
    if a.prop == "setup" or a.setup:
        import setup_check

        return setup_check.main()
    if a.prop in TREE:
        import check_tree

        return check_tree.run(a.prop, a.tier, replay=a.replay)
    if a.prop == "C10":
        import check_c10

        return check_c10.run(a.prop, a.tier, replay=a.replay)
    if a.prop == "C20":
        import check_c20

        return check_c20.run(a.prop, a.tier, replay=a.replay)
    if a.prop == "C19":
        import check_c19

        return check_c19.run(a.prop, a.tier, replay=a.replay)
    if a.prop == "C18":
        import check_c18

        return check_c18.run(a.prop, a.tier, replay=a.replay)
    if a.prop == "C15":
        import check_c15

        return check_c15.run(a.prop, a.tier, replay=a.replay)
    if a.prop == "C14":
        import check_c14

        return check_c14.run(a.prop, a.tier, replay=a.replay)
    if a.prop == "C11":
        import check_c11

        return check_c11.run(a.prop, a.tier, replay=a.replay)
    if a.prop == "C09":
        import check_pair

        return check_pair.run_c09(a.prop, a.tier, replay=a.replay)
    if a.prop == "C04":
        import check_pair

        return check_pair.run_c04(a.prop, a.tier, replay=a.replay)
    if a.prop == "C13":
        import check_c13

        return check_c13.run(a.prop, a.tier, replay=a.replay)
    if a.prop == "C12":
        import check_c12

        return check_c12.run(a.prop, a.tier, replay=a.replay)
    if a.prop == "C05":
        import check_c05

        return check_c05.run(a.prop, a.tier, replay=a.replay)
    if a.prop in ("C06",):
        import check_bt

        return check_bt.run(a.prop, a.tier, replay=a.replay)
    print("unknown property %s" % a.prop, file=sys.stderr)
    return 2


if __name__ == "__main__":
    try:
        rc = main()
    except SystemExit:
        raise
    except Exception:  # machinery failure, never a verdict
        import traceback

        traceback.print_exc()
        rc = 2
    sys.exit(rc)
