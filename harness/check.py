"""Entry point: ./check <ID> [--tier quick|thorough] [--replay PATH]"""
import argparse
import os
import sys

sys.path.insert(0, os.path.dirname(os.path.abspath(__file__)))

TREE = ("C01", "C02", "C03", "C07", "C08", "C16", "C17")


COMPILED = ("C01", "C02", "C03", "C05", "C06", "C07", "C08", "C10", "C16", "C17")


def compiled_pass(prop, rc):
    """Thorough tier: repeat the quick-size run on the Cython build of the working
    tree (built fresh in a scratch directory) and fold the outcome in."""
    import json
    import subprocess

    env = dict(os.environ, BT_VERIF_BUILD="compiled", BT_VERIF_EVIDENCE_SUFFIX=".compiled", VERIF_TIER="quick")
    p = subprocess.run([sys.executable, os.path.abspath(__file__), prop, "--tier", "quick"], env=env, capture_output=True, text=True)
    lines = [l for l in p.stdout.splitlines() if l.startswith(("VIOLATION", "KNOWN-FINDING", "  "))]
    for l in lines:
        if l.startswith("VIOLATION") or l.startswith("  "):
            print(l + ("   [compiled build]" if l.startswith("VIOLATION") else ""))
    evp = os.path.join(os.path.dirname(os.path.dirname(os.path.abspath(__file__))), "evidence", prop + ".json")
    sub = evp.replace(".json", ".compiled.json")
    try:
        ev = json.load(open(evp))
        ce = json.load(open(sub)) if os.path.exists(sub) else {}
        ev["coverage"]["compiled_build"] = {"exit": p.returncode, "traces_validated_against_impl": ce.get("coverage", {}).get("traces_validated_against_impl"),
                                            "verdicts": ce.get("coverage", {}).get("verdicts"), "sources": ce.get("coverage", {}).get("sources"), "wall_s": ce.get("wall_s")}
        if p.returncode == 1:
            ev["violations"] = ev.get("violations", 0) + ce.get("violations", 1)
        json.dump(ev, open(evp, "w"), indent=1, default=str)
        if os.path.exists(sub):
            os.remove(sub)
    except Exception as e:  # noqa: BLE001
        print("MACHINERY-ERROR: compiled pass evidence merge failed: %s" % e, file=sys.stderr)
        return 2
    if p.returncode == 2:
        print("MACHINERY-ERROR: compiled-build pass failed:\n" + p.stderr[-1500:], file=sys.stderr)
        return 2
    return max(rc, p.returncode)


def main():
    rc = _main()
    a = sys.argv[1:]
    tier = os.environ.get("VERIF_TIER", "quick")
    if "--tier" in a:
        tier = a[a.index("--tier") + 1]
    if (a and a[0] in COMPILED and tier == "thorough" and "--replay" not in a and rc in (0, 1)
            and os.environ.get("BT_VERIF_BUILD") != "compiled"):
        rc = compiled_pass(a[0], rc)
    return rc


def _main():
    ap = argparse.ArgumentParser()
    ap.add_argument("prop")
    ap.add_argument("--tier", default=os.environ.get("VERIF_TIER", "quick"), choices=["quick", "thorough"])
    ap.add_argument("--replay")
    ap.add_argument("--setup", action="store_true")
    a = ap.parse_args()
    if a.prop == "setup" or a.setup:
        import setup_check

        return setup_check.main()
    if a.prop in TREE:
        import check_tree

        return check_tree.run(a.prop, a.tier, replay=a.replay)
    if a.prop == "C10":
        import check_c10

        return check_c10.run(a.prop, a.tier, replay=a.replay)
    if a.prop == "C20":
        import check_c20

        return check_c20.run(a.prop, a.tier, replay=a.replay)
    if a.prop == "C19":
        import check_c19

        return check_c19.run(a.prop, a.tier, replay=a.replay)
    if a.prop == "C18":
        import check_c18

        return check_c18.run(a.prop, a.tier, replay=a.replay)
    if a.prop == "C15":
        import check_c15

        return check_c15.run(a.prop, a.tier, replay=a.replay)
    if a.prop == "C14":
        import check_c14

        return check_c14.run(a.prop, a.tier, replay=a.replay)
    if a.prop == "C11":
        import check_c11

        return check_c11.run(a.prop, a.tier, replay=a.replay)
    if a.prop == "C09":
        import check_pair

        return check_pair.run_c09(a.prop, a.tier, replay=a.replay)
    if a.prop == "C04":
        import check_pair

        return check_pair.run_c04(a.prop, a.tier, replay=a.replay)
    if a.prop == "C13":
        import check_c13

        return check_c13.run(a.prop, a.tier, replay=a.replay)
    if a.prop == "C12":
        import check_c12

        return check_c12.run(a.prop, a.tier, replay=a.replay)
    if a.prop == "C05":
        import check_c05

        return check_c05.run(a.prop, a.tier, replay=a.replay)
    if a.prop in ("C06",):
        import check_bt

        return check_bt.run(a.prop, a.tier, replay=a.replay)
    print("unknown property %s" % a.prop, file=sys.stderr)
    return 2


if __name__ == "__main__":
    try:
        rc = main()
    except SystemExit:
        raise
    except Exception:  # machinery failure, never a verdict
        import traceback

        traceback.print_exc()
        rc = 2
    sys.exit(rc)
