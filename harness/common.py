"""Shared machinery of the checks: parallel execution of drivers, batched trace
validation in parallel JVMs, known-finding classification, evidence files."""
import concurrent.futures as cf
import json
import multiprocessing as mp
import os
import sys
import time

VERIF = os.path.dirname(os.path.dirname(os.path.abspath(__file__)))
EVIDENCE = os.path.join(VERIF, "evidence")
REPLAY = os.path.join(EVIDENCE, "replay")
NCPU = max(2, min(16, os.cpu_count() or 4))


def seed():
    try:
        return int(os.environ.get("VERIF_SEED", "0"))
    except ValueError:
        return 0


def load_known():
    with open(os.path.join(VERIF, "known_findings.json")) as fh:
        doc = json.load(fh)
    return {e["id"]: e for e in doc["findings"]}


def pool_map(fn, items, procs=NCPU, chunksize=4):
    """Run fn over items in forked worker processes (bt is loaded before the
    fork, so every worker sees the same working tree)."""
    if not items:
        return []
    ctx = mp.get_context("fork")
    with ctx.Pool(processes=procs) as pool:
        return pool.map(fn, items, chunksize=chunksize)


def validate_parallel(module, traces, batch=80, jvms=None, timeout=900):
    """Split traces over several TLC processes; returns (verdicts, stats)."""
    import tlcrun

    jvms = jvms or max(1, NCPU // 2)
    batches = [traces[i : i + batch] for i in range(0, len(traces), batch)]
    verdicts = {}
    stats = {"generated": 0, "distinct": 0, "seconds": 0.0, "batches": len(batches), "skips": {}}
    if not batches:
        return verdicts, stats
    with cf.ThreadPoolExecutor(max_workers=jvms) as ex:
        futs = [ex.submit(tlcrun.validate_batch, module, b, timeout) for b in batches]
        for f in futs:
            v, st, _ = f.result()
            verdicts.update(v)
            stats["generated"] += st["generated"]
            stats["distinct"] += st["distinct"]
            stats["seconds"] += st["seconds"]
            stats["skips"].update(st["skips"])
    return verdicts, stats


def clause_prop(clause):
    """'C07.cash[2]' -> 'C07'"""
    return clause.split(".", 1)[0]


class Report:
    """Collects what a check run covered and decides the exit status."""

    def __init__(self, prop, tier, level="model_checking"):
        self.prop = prop
        self.tier = tier
        self.level = level
        self.t0 = time.time()
        self.violations = []  # (signature, replay path, text)
        self.known = {}  # kf id -> count
        self.cov = {
            "states": 0,
            "transitions": 0,
            "traces_validated_against_impl": 0,
            "samples": [],
            "exhaustive": False,
        }
        self.assumptions = []
        self.extra = {}
        self.machinery_errors = []

    def add_tlc(self, generated, distinct, key=None, **info):
        self.cov["states"] += int(distinct)
        self.cov["transitions"] += int(generated)
        if key:
            self.extra.setdefault("tlc_runs", []).append(dict(name=key, generated=generated, distinct=distinct, **info))

    def violation(self, signature, payload, text):
        os.makedirs(REPLAY, exist_ok=True)
        idx = len(self.violations) + 1
        path = os.path.join(REPLAY, "%s_%d.json" % (self.prop, idx))
        with open(path, "w") as fh:
            json.dump(payload, fh, indent=1, default=str)
        self.violations.append((signature, path, text))

    def finish(self, known_db=None):
        known_db = known_db or {}
        for kid, n in sorted(self.known.items()):
            e = known_db.get(kid, {})
            if e.get("status", "open") == "open":
                print("KNOWN-FINDING: property=%s %s (%s; %d occurrence(s) this run)" % (self.prop, kid, e.get("kind", e.get("description", ""))[:120], n))
        for sig, path, text in self.violations:
            print("VIOLATION property=%s replay=%s" % (self.prop, path))
            print("  " + text)
        ev = {
            "property_id": self.prop,
            "tier": self.tier,
            "seed": seed(),
            "level": self.level,
            "coverage": self.cov,
            "assumptions": self.assumptions,
            "wall_s": round(time.time() - self.t0, 2),
            "violations": len(self.violations),
        }
        ev["coverage"].update(self.extra)
        ev["coverage"]["known_findings_hit"] = self.known
        os.makedirs(EVIDENCE, exist_ok=True)
        with open(os.path.join(EVIDENCE, "%s%s.json" % (self.prop, os.environ.get("BT_VERIF_EVIDENCE_SUFFIX", ""))), "w") as fh:
            json.dump(ev, fh, indent=1, default=str)
        if self.machinery_errors:
            for m in self.machinery_errors:
                print("MACHINERY-ERROR: " + m, file=sys.stderr)
            return 2
        return 1 if self.violations else 0


def shorten_trace(tr, maxev=6):
    """A readable excerpt of a recorded trace for the evidence file."""
    evs = []
    for e in tr["events"][:maxev]:
        evs.append({k: e[k] for k in ("op", "node", "child", "a", "b", "flow", "upd", "date", "exc", "trades", "cash", "pos") if k in e})
    return {"tid": tr["tid"], "tree": tr["C"].get("tree"), "kinds": tr["C"]["kind"], "integer": tr["C"]["integer"], "events": evs, "n_events": len(tr["events"])}
