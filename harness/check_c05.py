"""C05: (A) MC_BtSizing - TLC evaluates the transcription of the pinned sizing
search on a whole grid against the property and the listed K1 classes;
(B) the same kind of grid, point by point, through the real
StrategyBase + SecurityBase (fresh tree per point: set up a position with an
explicit transact, then allocate the amount); (C) each point judged by
Trace_BtAbs (clause C05.sizing, known-finding signatures KF_C05)."""
import itertools
import json
import os
import random
import re
import shutil

import common
import tlcrun
import treedrv
import treegen
from num import NAN

Z = [0, 1]
COMMS = treegen.COMMS


def point_scenario(pt):
    price, mult, pos, spread, comm, amount, integer = pt
    C = {
        "tree": "pt", "N": 2, "kind": ["strat", "sec"], "par": [1, 1], "kids": [[2], []], "names": ["r", "a"],
        "mult": [[1, 1], [mult, 1]], "fi": [False, False], "T": 1,
        "px": [[], [NAN if price is None else (list(price) if isinstance(price, (list, tuple)) else [price, 1])]], "spread": [[], [[spread, 1]]],
        "coupon": [[], [Z]], "costl": [[], [Z]], "costs": [[], [Z]],
        "comm": [COMMS[comm], COMMS["zero"]], "integer": bool(integer), "bidoffer": True, "D": 50000, "DW": 200000, "paper": False,
    }
    ops = [{"op": "adjust", "node": 1, "a": [100000, 1], "flow": True, "upd": True}, {"op": "update", "date": 1}]
    if pos and price:
        ops.append({"op": "transact", "node": 2, "a": [pos, 1], "b": NAN, "upd": True})
        ops.append({"op": "update", "date": 1})
    a = amount
    if amount == "closeop":
        # the library's own close-out: close() allocates minus the value it computed itself
        ops.append({"op": "close", "node": 1, "child": 2, "upd": True})
        return {"C": C, "ops": ops}
    if amount == "closeout":
        a = -pos * (price or 0) * mult
    ops.append({"op": "allocate", "node": 2, "a": [a, 1] if isinstance(a, int) else a, "upd": True})
    return {"C": C, "ops": ops}


def _run(args):
    i, pt = args
    scn = point_scenario(pt)
    tr = treedrv.run_scenario(scn, tid=i + 1)
    tr["ops"] = scn["ops"]
    tr["pt"] = pt
    return tr


def grid(tier, rng):
    if tier == "quick":
        prices, mults, poss, spreads = [3, 7, 10, 50, 100], [1, 2], [0, 4, -4], [0, 2]
        amounts = list(range(-120, 121))
    else:
        prices, mults, poss, spreads = [3, 7, 10, 37, 50, 100, 500], [1, 2, 5], [0, 4, -4, 25, -25], [0, 2, 4]
        amounts = list(range(-400, 401)) + list(range(-2000, 2001, 7))
    pts = []
    for price, m, pos, sp, comm in itertools.product(prices, mults, poss, spreads, list(COMMS)):
        if 4 * sp > price * m:
            continue
        for a in amounts:
            pts.append((price, m, pos, sp, comm, a, True))
        pts.append((price, m, pos, sp, comm, "closeout", True))
    # fractional mode: zero / proportional costs, the cost must equal the amount
    for price, m, pos, comm in itertools.product([10, 50], [1, 2], [0, 4, -4], ["zero"]):
        for a in amounts[::5]:
            pts.append((price, m, pos, 0, comm, a, False))
    # close-outs at decimal prices (position * price does not always round-trip in floating point)
    for price, m, pos, comm, integer in itertools.product([(3333, 100), (1234, 100), (1999, 100), (707, 10), (10001, 1000)], [1, 10], [37, 7, -13, 41], ["fix", "prop", "tier", "zero"], [True, False]):
        if integer or comm in ("zero", "prop"):
            pts.append((price, m, pos, 0, comm, "closeop", integer))
    # refused trades: missing and zero price
    for price in (None, 0):
        for a in (100, -100, 0):
            pts.append((price, 1, 0, 0, "zero", a, True))
    # the real tree is driven on a sample of the grid (TLC evaluates the whole grid on the
    # transcription of the search: MC_BtSizing)
    keep = [p_ for p_ in pts if p_[5] == "closeop"]
    rest = [p_ for p_ in pts if p_[5] != "closeop"]
    rng.shuffle(rest)
    pts = rest[: (2400 if tier == "quick" else 60000)] + keep
    return pts


def run(prop, tier, replay=None):
    known_db = common.load_known()
    if replay:
        return do_replay(prop, replay)
    rep = common.Report(prop, tier)
    rng = random.Random(common.seed())
    # (A) design check
    d = tlcrun.scratch_dir()
    cfg = os.path.join(d, "sz.cfg")
    big = tier != "quick"
    with open(cfg, "w") as fh:
        fh.write("SPECIFICATION Spec\nCONSTANTS\n  Prices = {%s}\n  Mults = {1, 2}\n  Positions <- %s\n  Spreads = {0, 2}\n"
                 "  Comms = {\"zero\", \"fix\", \"unit\", \"tier\", \"prop\", \"sell\", \"buy\"}\n  AmtLo <- %s\n  AmtHi = %d\n"
                 "INVARIANT Inv_ShippedInClasses\nINVARIANT Inv_MaxQOk\nCHECK_DEADLOCK FALSE\n"
                 % ("3, 7, 10, 37, 50, 100" if big else "3, 7, 10, 50", "PosDefBig" if big else "PosDef", "LoBig" if big else "LoQuick", 400 if big else 60))
    try:
        out, secs = tlcrun.run_tlc("MC_BtSizing", cfg=cfg, workers=common.NCPU, timeout=1500)
    finally:
        shutil.rmtree(d, ignore_errors=True)
    gen, dist = tlcrun.stats(out)
    complete = "Model checking completed. No error has been found" in out
    rep.add_tlc(gen, dist, key="design:MC_BtSizing", seconds=round(secs, 1), complete=complete, grid="big" if big else "quick")
    if not complete:
        m = re.search(r"Error: .*", out)
        rep.machinery_errors.append("MC_BtSizing did not pass: %s" % (m.group(0) if m else out[-600:]))
    rep.cov["exhaustive"] = complete
    # (B) the grid through the real code
    pts = grid(tier, rng)
    traces = common.pool_map(_run, list(enumerate(pts)), chunksize=16)
    slim = [{"tid": t["tid"], "C": t["C"], "events": t["events"]} for t in traces]
    try:
        verdicts, st = common.validate_parallel("Trace_BtAbs", slim, batch=300)
    except tlcrun.TlcError as e:
        rep.machinery_errors.append(str(e)[:1500])
        return rep.finish(known_db)
    rep.add_tlc(st["generated"], st["distinct"], key="validation:Trace_BtAbs", seconds=round(st["seconds"], 1), batches=st["batches"])
    rep.cov["traces_validated_against_impl"] = len(verdicts)
    import check_tree

    counts = check_tree.classify(rep, prop, traces, verdicts, known_db)
    rep.extra["grid_points"] = len(pts)
    rep.cov["samples"] = [{"point (price, mult, position, spread, commission, amount, whole units)": list(t["pt"]), "ops": t["ops"], "verdict": verdicts[t["tid"]]} for t in traces[:3]]
    rep.extra["sources"] = __import__("btload").source_info()
    rep.assumptions = ["grid of small integers; commission family zero/fix/unit/tier/prop; spread <= price*mult/4 (C05's domain: costs per unit below the unit price)",
                       "fractional mode only with zero costs (the loop's np.isclose termination is not modelled)"]
    return rep.finish(known_db)


def do_replay(prop, path):
    import check_tree

    return check_tree.do_replay(prop, path)
