"""Pair machinery: reduce a finished backtest to per-date digests (CRC over
the raw IEEE bit patterns of every recorded row of every node), so that two
runs can be compared bit for bit by Trace_BtPair."""
import copy
import math
import zlib

import btdrv
from treedrv import bt, np, pd

FAMILIES = ("prices", "values", "positions", "cash", "fees", "weights", "transactions")


FIXED = [False]  # digest fixed-point values (1e-6) instead of raw IEEE patterns


def _acc(d, fam, i, key, x):
    x = float(x)
    if x == 0.0 or math.isnan(x):
        return
    if FIXED[0]:
        v = round(x * 1e6)
        if v == 0:
            return
        d[fam][i] ^= zlib.crc32(("%s|%d" % (key, v)).encode())
        return
    d[fam][i] ^= zlib.crc32(("%s|%s" % (key, x.hex())).encode())


def digests(b, prog, root=None, fixed=False):
    """{family: [int per date]} over the dates of b.data (incl. pre-start row).
    fixed=True: values enter in fixed point (1e-6) - for relations that hold up
    to floating-point re-association (e.g. another child creation order)."""
    FIXED[0] = bool(fixed)
    try:
        return _digests(b, prog, root)
    finally:
        FIXED[0] = False


def _digests(b, prog, root=None):
    s = root if root is not None else b.strategy
    idx = s.data.index
    n = len(idx)
    d = {f: [0] * n for f in FAMILIES}
    pos = {ts: i for i, ts in enumerate(idx)}
    for m in s.members:
        nm = m.full_name
        if isinstance(m, bt.core.SecurityBase):
            fams = (("values", m._values), ("positions", m._positions))
        else:
            fams = (("values", m._values), ("prices", m._prices), ("cash", m._cash), ("fees", m._fees))
        for fam, ser in fams:
            v = ser.values
            for i in range(min(n, len(v))):
                _acc(d, fam, i, nm, v[i])
        # weight of every node in its parent, per date, from the recorded values
        if m.parent is not m:
            pv = m.parent._values.values
            mv = m._values.values
            for i in range(min(n, len(mv), len(pv))):
                if pv[i] != 0 and not math.isnan(pv[i]):
                    _acc(d, "weights", i, nm, mv[i] / pv[i])
    try:
        tx = s.get_transactions()
        for (date, sec), row in tx.iterrows():
            i = pos.get(date)
            if i is not None:
                _acc(d, "transactions", i, sec + "|q", row["quantity"])
                _acc(d, "transactions", i, sec + "|p", row["price"])
    except Exception:  # noqa: BLE001 - a tree that never traded (finding F4)
        pass
    return {f: [x & 0x3FFFFFFF for x in v] for f, v in d.items()}


def input_digest(prog):
    """Per-date digest of every supplied table (prices and extras)."""
    T = prog["T"]
    out = [0] * (T + 1)
    tabs = {"px": prog["px"]}
    for k, v in prog.get("extra", {}).items():
        if isinstance(v, dict) and v.get("__bydate__"):
            continue  # (static reference data: not dated input)
        if isinstance(v, dict) and v.get("__group__"):
            for m, tab in v["frames"].items():
                tabs[k + "." + m] = tab
        elif isinstance(v, dict) and not v.get("__raw__") and not v.get("__series__"):
            tabs[k] = v
        elif isinstance(v, dict) and v.get("__series__"):
            tabs[k] = {"s": v["values"]}
    for k, v in prog.get("extra", {}).items():
        if isinstance(v, dict) and v.get("__tx__"):
            for r in v["rows"]:
                out[r[0] + 1] ^= zlib.crc32(("%s|%r" % (k, r)).encode())
    for tn, tab in sorted(tabs.items()):
        if tab.get("__tx__"):
            continue
        rows = tab.get("__idx__")
        lead = int(tab.get("__lead__", 0))
        for c, col in sorted((kv for kv in tab.items() if kv[0] not in ("__idx__", "__lead__")), key=lambda kv: kv[0]):
            for i, x in enumerate(col):
                if rows is not None and i not in rows:
                    continue
                out[max(0, i - lead + 1)] ^= zlib.crc32(("%s|%s|%d|%r" % (tn, c, i, x)).encode())
    return [x & 0x3FFFFFFF for x in out]


def perturb(prog, cut, rng, kind=None):
    """A copy of prog whose supplied data strictly after date index `cut`
    (1-based over the data rows) is changed; the date index itself is kept."""
    q = copy.deepcopy(prog)
    tabs = [("px", q["px"])] + [(k, v) for k, v in q.get("extra", {}).items() if isinstance(v, dict) and not v.get("__raw__") and not v.get("__group__") and not v.get("__tx__") and not v.get("__bydate__")]
    blotters = [v for v in q.get("extra", {}).values() if isinstance(v, dict) and v.get("__tx__")]
    for k, v in q.get("extra", {}).items():
        if isinstance(v, dict) and v.get("__group__"):
            tabs += [(k + "." + m, tab) for m, tab in v["frames"].items()]
    kind = kind or rng.choice(["px", "all", "all", "all", "one"])
    chosen = tabs if kind == "all" else ([tabs[0]] if kind == "px" else [rng.choice(tabs)])
    changed = False
    for name, tab in chosen:
        cols = tab["values"] if tab.get("__series__") else None
        items = [("s", cols)] if cols is not None else [kv for kv in tab.items() if kv[0] not in ("__idx__", "__lead__")]
        lead = 0 if cols is not None else int(tab.get("__lead__", 0))
        for c, col in items:
            for i in range(lead + cut, len(col)):
                old = col[i]
                mode = rng.random()
                if name == "px" or name == "bidoffer":
                    if name == "px" and (mode < 0.12 or (old is None and mode < 0.5)):
                        # quote availability changes too: a price goes missing / a missing one appears
                        new = None if old is not None else rng.choice([10, 20, 30])
                    else:
                        new = (old if old is None else max(1, int(old) + rng.choice([-5, -2, 3, 7, 11]))) if name == "px" else rng.choice([0, 2, 4])
                elif old is None:
                    new = rng.choice([None, 0.25, 1]) if name not in ("coupons", "cost_long", "cost_short", "notional") else None
                elif isinstance(old, bool):
                    new = not old if mode < 0.5 else old
                elif name in ("coupons", "cost_long", "cost_short", "notional"):
                    # (a missing coupon / cost / notional on an open position is ill-formed input: C10's business)
                    new = rng.choice([old * 0.5, old * 2, old * 1.5, old + 1, 0.25, 0])
                else:
                    new = rng.choice([old * 0.5, old * 2, -old, old * 1.5, 100, -100, 0.01, None])
                if new != old:
                    changed = True
                col[i] = new
    if blotters and kind != "px":
        for bl in blotters:
            new = []
            for r in bl["rows"]:
                if r[0] >= cut:
                    m = rng.random()
                    if m < 0.3:
                        changed = True
                        continue  # the trade did not happen
                    r = list(r)
                    r[2] = r[2] * rng.choice([2, -1, 0.5]) if m < 0.7 else r[2]
                    r[3] = r[3] + rng.choice([-2, 1, 3])
                    changed = True
                new.append(r)
            T = q["T"]
            for _ in range(rng.randint(0, 2)):
                if cut < T:
                    new.append([rng.randint(cut, T - 1), rng.choice(q["cols"]), rng.choice([5, -5, 20]), rng.choice([10, 20, 30]), 0])
                    changed = True
            bl["rows"] = new  # (order kept: a blotter need not be sorted by date)
    return q, changed
