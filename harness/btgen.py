"""Generators of backtest *programs* (strategy trees assembled from the stock
algos, data tables on the exact lattice, settings) for the backtest-level
checks."""
import random
from fractions import Fraction

TICKERS = ["a", "b", "c", "d"]
Z = [0, 1]

COMMS = {
    "zero": None,
    "fix": {"k": "fix", "a": [1, 1], "b": Z},
    "unit": {"k": "unit", "a": [1, 4], "b": Z},
    "tier": {"k": "tier", "a": [2, 1], "b": [1, 4]},
    "prop": {"k": "prop", "a": [1, 100], "b": Z},
    "sell": {"k": "sell", "a": [1, 100], "b": Z},
    "buy": {"k": "buy", "a": [1, 100], "b": Z},
}
COMMS_X = {"gouge": {"k": "prop", "a": [3, 10], "b": Z}}  # sinks a levered portfolio through its opening trades


def walk_prices(rng, T, lo=8, hi=60, late=False, zero=False):
    p = rng.choice([10, 12, 20, 25, 40, 50])
    out = []
    for _ in range(T):
        out.append(p)
        p = min(hi * 2, max(lo // 2, p + rng.choice([-3, -2, -1, 0, 1, 2, 3, 4])))
    if late:
        k = rng.randint(1, T // 2)
        out = [None] * k + out[k:]
    if zero:
        k = rng.randint(T // 2, T - 1)
        out = out[:k] + [0] * (T - k)
    return out


def wvec(rng, names, kind="long"):
    """A target weight vector on the lattice (denominators 2,4,5,10)."""
    n = len(names)
    if n == 0:
        return {}
    if kind == "long":
        parts = [rng.choice([1, 2, 3, 4]) for _ in names]
        tot = sum(parts) + rng.choice([0, 0, 1, 2])
        den = rng.choice([1, 1, 2])
        return {nm: float(Fraction(p, tot * den) * den) if False else float(Fraction(p, tot)) for nm, p in zip(names, parts)}
    if kind == "lattice":
        opts = [Fraction(1, 2), Fraction(1, 4), Fraction(1, 5), Fraction(3, 10), Fraction(1, 10), Fraction(0)]
        w = {}
        left = Fraction(1)
        for nm in names:
            c = [o for o in opts if o <= left]
            v = rng.choice(c)
            w[nm] = float(v)
            left -= v
        return w
    if kind == "ls":  # long/short
        opts = [Fraction(1, 2), Fraction(-1, 2), Fraction(1, 4), Fraction(-1, 4), Fraction(3, 4)]
        return {nm: float(rng.choice(opts)) for nm in names}
    raise ValueError(kind)


def base_prog(rng, T=None, cols=None, comm=None, integer=None, spread=None, capital=None, late=False):
    T = T or rng.randint(6, 9)
    cols = cols or TICKERS[: rng.choice([2, 3, 3, 4])]
    px = {c: walk_prices(rng, T, late=(late and rng.random() < 0.3)) for c in cols}
    prog = {
        "T": T,
        "cols": list(cols),
        "px": px,
        "extra": {},
        "bt": {
            "capital": capital or rng.choice([10000, 10000, 20000, 5000]),
            "integer": rng.random() < 0.7 if integer is None else integer,
            "comm": {**COMMS, **COMMS_X}[comm if comm is not None else rng.choice(list(COMMS))],
        },
    }
    sp = rng.choice([0, 0, 2]) if spread is None else spread
    if sp:
        prog["extra"]["bidoffer"] = {c: [rng.choice([0, sp]) for _ in range(T)] for c in cols}
    return prog


def tame_spreads(prog):
    """C05's domain: costs per unit stay well below the unit price."""
    bo = prog.get("extra", {}).get("bidoffer")
    if bo:
        for c, col in bo.items():
            px = prog["px"][c]
            bo[c] = [s_ if (p_ is not None and 4 * s_ <= p_) else 0 for s_, p_ in zip(col, px)]
    return prog


# sub-strategies are also run (as paper-trading shadows) on the synthetic
# pre-start row, where every price is missing: their stacks must be gated by a
# calendar scheduler (these return False on that row); see known finding K7
CAL_SCHEDULERS = [
    ("RunDaily", {}),
    ("RunDaily", {}),
    ("RunWeekly", {}),
    ("RunMonthly", {}),
    ("RunWeekly", {"run_on_end_of_period": True}),
]

SCHEDULERS = [
    ("RunDaily", {}),
    ("RunOnce", {}),
    ("RunWeekly", {}),
    ("RunEveryNPeriods", {"n": 2}),
    ("RunEveryNPeriods", {"n": 3, "offset": 1}),
    ("RunAfterDays", {"days": 2}),
]


def rebalance_stack(rng, names, prog, cash=True, kinds=("lattice", "long", "ls"), scheduler=None):
    st = []
    sch = scheduler if scheduler is not None else rng.choice(SCHEDULERS + [None])
    if sch is not None:
        st.append(list(sch))
    mode = rng.choice(["specified", "equal", "target", "equal_these"])
    if mode == "specified":
        st.append(["WeighSpecified", {"w": wvec(rng, names, rng.choice(kinds))}])
    elif mode == "equal":
        st.append(["SelectAll", {}] if rng.random() < 0.6 else ["SelectHasData", {"lookback": rng.choice([1, 2, 4]), "min_count": rng.choice([1, 2, 3])}])
        st.append(["WeighEqually", {}])
    elif mode == "equal_these":
        k = rng.randint(1, len(names))
        st.append(["SelectThese", {"tickers": rng.sample(names, k)}])
        st.append(["WeighEqually", {}])
    else:
        T = prog["T"]
        tab = {}
        rows = [wvec(rng, names, rng.choice(kinds)) if rng.random() < 0.6 else None for _ in range(T)]
        for nm in names:
            tab[nm] = [None if r is None else r.get(nm) for r in rows]
        key = "tw_%d" % rng.randint(0, 10**6)
        prog["extra"][key] = tab
        st.append(["WeighTarget", {"weights": key}])
    if cash and rng.random() < 0.4:
        st.append(["SetCash", {"c": float(rng.choice([Fraction(1, 5), Fraction(1, 2), Fraction(0), Fraction(1, 10)]))}])
    st.append(["Rebalance", {}])
    return st


def prog_flat(rng, **kw):
    prog = base_prog(rng, **kw)
    names = prog["cols"]
    declared = rng.random() < 0.5
    kids = list(names) if declared else []
    if declared and rng.random() < 0.4:
        # contracts with a multiplier (futures): Security objects built up front
        kids = [{"sec": n_, "kind": "sec", "mult": rng.choice([1, 2, 5, 10])} for n_ in names]
    prog["tree"] = {"name": "r", "algos": rebalance_stack(rng, names, prog), "children": kids}
    if rng.random() < 0.3:
        prog["tree"]["algos"].insert(0, ["CapitalFlow", {"amount": rng.choice([1000, -500, 250])}])
    if rng.random() < 0.25:
        # a user algo that leaves a deferred trade for the engine's closing update
        t_ = rng.choice(names)
        prog["tree"]["algos"].append(["DeferredTrade", {"ticker": t_, "q": rng.choice([5, 10, -5])} if rng.random() < 0.5 else {"ticker": t_, "amount": rng.choice([300, 500, -200])}])
    return prog


def prog_nested(rng, **kw):
    """root{k1{..}, k2{..}, maybe a ticker}: the root rebalances between its
    sub-strategies (and a security), each sub-strategy runs its own stack."""
    prog = base_prog(rng, **kw)
    cols = prog["cols"]
    k1cols = cols[: max(1, len(cols) // 2)]
    k2cols = cols[len(cols) // 2 :] if rng.random() < 0.6 else cols[: max(1, len(cols) - 1)]  # maybe shared tickers
    kids = [
        # (a sub-strategy may run a long/short book)
        {"name": "k1", "algos": rebalance_stack(rng, k1cols, prog, cash=False, kinds=("lattice", "long", "ls") if len(k1cols) > 1 else ("lattice", "long"), scheduler=rng.choice(CAL_SCHEDULERS)), "children": list(k1cols)},
        {"name": "k2", "algos": rebalance_stack(rng, k2cols, prog, cash=False, kinds=("lattice", "long"), scheduler=rng.choice(CAL_SCHEDULERS)), "children": list(k2cols)},
    ]
    top = ["k1", "k2"]
    children = list(kids)
    if rng.random() < 0.4:
        children.append(cols[-1])
        top.append(cols[-1])
    prog["tree"] = {"name": "r", "algos": rebalance_stack(rng, top, prog, kinds=("lattice", "long")), "children": children}
    return prog


def prog_stream(seed, n, family="mixed", **kw):
    for i in range(n):
        rng = random.Random((seed * 7919 + i * 104729) & 0xFFFFFFFF)
        fam = family
        if family == "mixed":
            fam = rng.choice(["flat", "flat", "nested"])
        prog = prog_flat(rng, **kw) if fam == "flat" else prog_nested(rng, **kw)
        prog["family"] = fam
        prog["idx"] = i
        yield i, rng, prog


def prog_bankrupt(rng, **kw):
    """Leveraged / short portfolios on price paths that do or do not drive the
    value through zero, flat and nested (C16)."""
    kw.setdefault("integer", rng.random() < 0.8)
    kw.setdefault("comm", rng.choice(["zero", "zero", "fix", "prop", "gouge"]))
    prog = base_prog(rng, **kw)
    T = prog["T"]
    cols = prog["cols"]
    # one column collapses (long leverage) or spikes (short) at a random date
    victim = cols[0]
    k = rng.randint(2, T - 1)
    path = prog["px"][victim]
    mode = rng.choice(["crash", "spike", "dip", "none"])
    if mode == "crash":
        path = path[:k] + [max(1, path[k] // rng.choice([3, 5, 10]))] * (T - k)
    elif mode == "spike":
        path = path[:k] + [path[k] * rng.choice([3, 4, 6])] * (T - k)
    elif mode == "dip":  # collapses for one date and recovers
        path = path[:k] + [max(1, path[k] // 6)] + path[k + 1 :]
    prog["px"][victim] = path
    lev = rng.choice([2, 3, 5]) if mode != "spike" else -rng.choice([1, 2, 3])
    w = {victim: float(lev)}
    if len(cols) > 1 and rng.random() < 0.5:
        w[cols[1]] = float(rng.choice([Fraction(1, 2), Fraction(-1, 2), Fraction(1, 4)]))
    sched = rng.choice([["RunOnce", {}], ["RunDaily", {}], ["RunEveryNPeriods", {"n": 2}]])
    if rng.random() < 0.5:
        prog["tree"] = {"name": "r", "algos": [sched, ["WeighSpecified", {"w": w}], ["Rebalance", {}]], "children": list(cols)}
        prog["family"] = "bankrupt-flat"
    else:
        kid = {"name": "k1", "algos": [["RunDaily", {}], ["WeighSpecified", {"w": w}], ["Rebalance", {}]], "children": list(cols)}
        top_w = {"k1": float(rng.choice([Fraction(1), Fraction(1, 2), Fraction(3, 4)]))}
        prog["tree"] = {"name": "r", "algos": [sched, ["WeighSpecified", {"w": top_w}], ["Rebalance", {}]], "children": [kid]}
        prog["family"] = "bankrupt-nested"
    return prog


def prog_flows(rng, **kw):
    """Flow schedules through CapitalFlow (several per date, both signs) on top
    of a rebalancing strategy (C03)."""
    prog = base_prog(rng, **kw)
    names = prog["cols"]
    st = rebalance_stack(rng, names, prog, scheduler=rng.choice([("RunDaily", {}), ("RunEveryNPeriods", {"n": 2}), None]))
    cap = prog["bt"]["capital"]
    nfl = rng.randint(1, 3)
    # withdrawals stay well inside the capital over the whole run: C16 is about
    # price paths driving value through zero, not about withdrawing it
    flows = []
    for _ in range(nfl):
        a = rng.choice([1000, -500, 250, -2000, 5000])
        if a < 0 and -a * prog["T"] > 0.4 * cap / nfl:
            a = -int(0.4 * cap / nfl / prog["T"])
        flows.append(["CapitalFlow", {"amount": a}])
    gate = rng.choice([None, ["RunEveryNPeriods", {"n": 2, "offset": 1}], ["RunAfterDays", {"days": 1}]])
    pre = []
    for f in flows:
        pre.append(["run_always", {"algo": f}] if gate is None or rng.random() < 0.5 else f)
    prog["tree"] = {"name": "r", "algos": pre + st, "children": list(names) if rng.random() < 0.5 else []}
    prog["family"] = "flows"
    if rng.random() < 0.3:
        # a flow booked with update=False by a user algo, closed by the engine's own update
        prog["tree"]["algos"].append(["DeferredFlow", {"amount": rng.choice([1000, 500, -250]), "flow": rng.random() < 0.8}])
    return prog


def prog_lookback(rng, **kw):
    """Strategies assembled from the stock algos that look at history:
    lookback windows, lags, dated weights / signals / statistics (C04, C10,
    C11, C14, C15 in situ)."""
    kw.setdefault("T", rng.randint(10, 14))
    sel = rng.choice(["all", "hasdata", "momentum", "setstat", "where", "these", "stat_n", "random", "regex"])
    wg = rng.choice(["equal", "invvol", "erc", "target", "equal_tv", "equal_ld", "equal_lw", "random", "equal", "invvol", "equal_sw", "pte", "dead"])
    # a dated target / statistic names tickers whatever their price: no late listings there
    # (nor with the covariance estimators: a ticker listed for one or two dates has no sample variance)
    late_ok = wg not in ("target", "pte", "dead", "invvol", "erc", "equal_tv") and sel != "setstat"
    prog = base_prog(rng, late=late_ok and rng.random() < 0.4, **kw)
    cols = prog["cols"]
    T = prog["T"]
    ex = prog["extra"]
    st = []
    sch = rng.choice([None, ("RunDaily", {}), ("RunWeekly", {}), ("RunWeekly", {"run_on_end_of_period": True}), ("RunMonthly", {"run_on_end_of_period": True}),
                      ("RunEveryNPeriods", {"n": 2}), ("RunAfterDays", {"days": 3}), ("RunOnDate", {"idx": sorted(rng.sample(range(0, T), 3))}),
                      ("RunAfterDate", {"idx": rng.randint(0, T // 2)})])
    if sch:
        st.append(list(sch))
    if wg in ("invvol", "erc", "equal_tv"):
        st.append(["RunAfterDays", {"days": 5}])  # warm-up: the estimators need a few returns
    if sel == "all":
        st.append(["SelectAll", {}])
    elif sel == "hasdata":
        st.append(["SelectHasData", {"lookback": rng.choice([1, 2, 4]), "min_count": rng.choice([1, 2, 3])}])
    elif sel == "momentum":
        st.append(["SelectAll", {}])
        st.append(["SelectMomentum", {"n": rng.choice([1, 2]), "lookback": rng.choice([3, 4, 5]), "lag": rng.choice([0, 1, 2])}])
    elif sel == "stat_n":
        st.append(["SelectAll", {}])
        st.append(["StatTotalReturn", {"lookback": rng.choice([3, 4, 6]), "lag": rng.choice([0, 1])}])
        st.append(["SelectN", {"n": rng.choice([1, 2, 0.5]), "sort_descending": rng.random() < 0.5, "all_or_none": rng.random() < 0.3}])
    elif sel == "setstat":
        sparse = rng.random() < 0.5
        ex["stat"] = {c: [(None if (sparse and rng.random() < 0.2) else rng.choice([1, 2, 3, 5, 8])) for _ in range(T)] for c in cols}
        if rng.random() < 0.6:  # published on some dates only
            ex["stat"]["__idx__"] = sorted(rng.sample(range(T), rng.randint(T // 3, T - 1)))
        st.append(["SetStat", {"stat": "stat", "lag": rng.choice([0, 0, 1, 3])}])
        st.append(["SelectN", {"n": rng.choice([1, 2]), "sort_descending": rng.random() < 0.5}])
    elif sel == "where":
        ex["signal"] = {c: [rng.random() < 0.6 for _ in range(T)] for c in cols}
        if rng.random() < 0.4:
            ex["signal"]["__idx__"] = sorted(rng.sample(range(T), rng.randint(T // 2, T - 1)))
        st.append(["SelectAll", {}])  # SelectWhere leaves the selection alone on dates its frame lacks
        st.append(["SelectWhere", {"signal": "signal"}])
    elif sel == "these":
        st.append(["SelectThese", {"tickers": rng.sample(cols, rng.randint(1, len(cols)))}])
    elif sel == "regex":
        st.append(["SelectAll", {}])
        st.append(["SelectRegex", {"regex": rng.choice(["^[ab]", "[^a]", "b|c", "^.$"])}])
    else:
        st.append(["SelectAll", {}])
        st.append(["SelectRandomly", {"n": rng.choice([1, 2])}])
    if wg == "equal":
        st.append(["WeighEqually", {}])
    elif wg == "invvol":
        st.append(["WeighInvVol", {"lookback": rng.choice([5, 6]), "lag": rng.choice([0, 1])}])
    elif wg == "erc":
        st.append(["WeighERC", {"lookback": rng.choice([5, 6]), "lag": rng.choice([0, 1])}])
    elif wg == "target":
        rows = [wvec(rng, cols, "lattice") if rng.random() < 0.6 else None for _ in range(T)]
        ex["tw"] = {c: [None if r is None else r.get(c) for r in rows] for c in cols}
        if rng.random() < 0.5:  # weights dated on some dates only
            keep = [i for i, r in enumerate(rows) if r is not None]
            if keep:
                ex["tw"]["__idx__"] = keep
        st.append(["WeighTarget", {"weights": "tw"}])
    elif wg == "equal_tv":
        st.append(["WeighEqually", {}])
        st.append(["TargetVol", {"vol": rng.choice([0.1, 0.2]), "lookback": rng.choice([5, 6]), "lag": rng.choice([0, 1])}])  # >= 3 rows even across a weekend
    elif wg == "equal_ld":
        st.append(["WeighEqually", {}])
        st.append(["LimitDeltas", {"limit": rng.choice([0.1, 0.25])}])
    elif wg == "equal_lw":
        st.append(["WeighEqually", {}])
        st.append(["LimitWeights", {"limit": rng.choice([0.4, 0.6])}])
    elif wg == "pte":
        # rebalance to dated target weights only when the tracking error is too large
        rows = [wvec(rng, cols, "long") for _ in range(T)]
        ex["ptw"] = {c: [r.get(c, 0.0) for r in rows] for c in cols}
        st.append(["RunAfterDays", {"days": 4}])
        st.append(["PTE_Rebalance", {"cap": rng.choice([0.0, 0.01, 0.05]), "weights": "ptw", "lookback": rng.choice([4, 6]), "lag": rng.choice([0, 1])}])
        st.append(["WeighTarget", {"weights": "ptw"}])
    elif wg == "dead":
        # a ticker dies (price 0 from some date on) while the weights still name it
        victim = rng.choice(cols)
        k = rng.randint(T // 2, T - 1)
        prog["px"][victim] = prog["px"][victim][:k] + [0] * (T - k)
        st.append(["WeighSpecified", {"w": wvec(rng, cols, "long")}])
        st.append(["CloseDead", {}])
    elif wg == "equal_sw":
        st.append(["WeighEqually", {}])
        st.append(["ScaleWeights", {"scale": rng.choice([0.5, 1.5, -1.0])}])
    else:
        st.append(["WeighRandomly", {}])
    st.append(rng.choice([["Rebalance", {}], ["Rebalance", {}], ["RebalanceOverTime", {"n": 3}]]))
    if sch and rng.random() < 0.25:
        # the scheduler wrapped in the combinators
        other = rng.choice([["RunOnce", {}], ["RunMonthly", {}], ["RunEveryNPeriods", {"n": 3}]])
        st[0] = rng.choice([["Or", {"algos": [st[0], other]}], ["Not", {"algo": other}]])
    prog["tree"] = {"name": "r", "algos": st, "children": []}
    prog["family"] = "lookback"
    return prog


def prog_nested09_bankrupt(rng, **kw):
    """C09 under a parent that goes bankrupt: the root is levered into a ticker that
    collapses; the sub-strategy's own tickers keep moving on the dates after."""
    prog = base_prog(rng, T=rng.randint(7, 9), cols=["a", "b", "c"], **kw)
    T = prog["T"]
    k = rng.randint(2, T - 3)
    pa = prog["px"]["a"]
    prog["px"]["a"] = pa[:k] + [max(1, pa[k] // rng.choice([3, 5, 10]))] * (T - k)
    sub_w = rng.choice([{"b": 0.5, "c": 0.5}, {"b": 1.0}, {"b": 0.25, "c": 0.5}])
    kid = {"name": "k1", "algos": [list(rng.choice(CAL_SCHEDULERS[:2])), ["WeighSpecified", {"w": sub_w}], ["Rebalance", {}]], "children": ["b", "c"]}
    top_w = {"a": float(rng.choice([2, 2.5, 3])), "k1": float(rng.choice([Fraction(1, 2), Fraction(1, 4), Fraction(1)]))}
    prog["tree"] = {"name": "r", "algos": [["RunOnce", {}], ["WeighSpecified", {"w": top_w}], ["Rebalance", {}]], "children": [kid, "a"]}
    prog["family"] = "nested09:bankrupt"
    return prog


def prog_nested09(rng, **kw):
    """C09: nested trees whose sub-strategies are calendar-gated; parents with
    allocation schedules incl. never / late / partial / withdrawing."""
    if rng.random() < 0.15:
        return prog_nested09_bankrupt(rng, **kw)
    prog = prog_nested(rng, **kw)
    top = [c["name"] for c in prog["tree"]["children"] if isinstance(c, dict)]
    mode = rng.choice(["asis", "never", "late", "once", "withdraw"])
    st = prog["tree"]["algos"]
    if mode == "never":
        prog["tree"]["algos"] = [["RunAfterDays", {"days": 99}]] + st
    elif mode == "late":
        prog["tree"]["algos"] = [["RunAfterDays", {"days": rng.randint(2, 4)}]] + [a for a in st if not a[0].startswith("Run")]
    elif mode == "once":
        prog["tree"]["algos"] = [["RunOnce", {}]] + [a for a in st if not a[0].startswith("Run")]
    elif mode == "withdraw":
        T = prog["T"]
        rows = [({n_: rng.choice([0.0, 0.25, 0.5]) for n_ in top} if rng.random() < 0.7 else None) for _ in range(T)]
        prog["extra"]["tw09"] = {n_: [None if r is None else r[n_] for r in rows] for n_ in top}
        prog["tree"]["algos"] = [["WeighTarget", {"weights": "tw09"}], ["Rebalance", {}]]
    prog["family"] = "nested09:" + mode
    return prog


def prog_fi(rng, **kw):
    """Fixed-income strategy at backtest level: mixed security kinds, coupon and
    holding-cost schedules, SetNotional-scaled Rebalance (C17, C18)."""
    T = rng.randint(6, 9)
    kinds = rng.sample(["cpsec", "cpsec", "fisec", "hedge", "sec", "cphedge"], rng.randint(2, 4))
    names = TICKERS[: len(kinds)]
    prog = {"T": T, "cols": list(names), "px": {n: [rng.choice([95, 98, 100, 100, 101, 104]) for _ in range(T)] for n in names}, "extra": {},
            "bt": {"capital": 0, "integer": rng.random() < 0.5, "comm": COMMS[rng.choice(["zero", "zero", "fix"])]}}
    cp = [n for n, k in zip(names, kinds) if k in ("cpsec", "cphedge")]
    if cp:
        prog["extra"]["coupons"] = {n: [rng.choice([0, 0, 0.25, 0.5, 1]) for _ in range(T)] for n in names}
        mode = rng.choice(["both", "long", "short", "none"])
        if mode in ("both", "long"):
            prog["extra"]["cost_long"] = {n: [rng.choice([0, 0.05, 0.1]) for _ in range(T)] for n in cp}
        if mode in ("both", "short"):
            prog["extra"]["cost_short"] = {n: [rng.choice([0, 0.05, 0.2]) for _ in range(T)] for n in cp}
    if rng.random() < 0.4:
        prog["extra"]["bidoffer"] = {n: [rng.choice([0, 2]) for _ in range(T)] for n in names}
    # (a wind-down ends at exactly zero: on the last date only - the date after a notional
    # traded down to zero divides by its floating-point residue, known finding K8's family)
    vals = [rng.choice([1000, 1000, 2000, 500]) for _ in range(T)]
    if rng.random() < 0.5:
        vals[-1] = 0
    prog["extra"]["notional"] = {"__series__": True, "values": vals}
    w = {n: float(rng.choice([Fraction(1, 2), Fraction(1, 4), Fraction(-1, 4), Fraction(1, 5), Fraction(0)])) for n in names}
    st = [rng.choice([["RunDaily", {}], ["RunEveryNPeriods", {"n": 2}], ["RunOnce", {}]]), ["WeighSpecified", {"w": w}], ["SetNotional", {"notional": "notional"}], ["Rebalance", {}]]
    prog["tree"] = {"name": "r", "fi": True, "algos": st, "children": [{"sec": n, "kind": k, "mult": 1} for n, k in zip(names, kinds)]}
    prog["family"] = "fi"
    return prog


def prog_hasdata_nested(rng, **kw):
    """A parent that holds a sub-strategy and picks its own tickers by how many
    quotes they have had so far (late listings, gaps): what counts is the history up
    to now, never the rows still to come (C04)."""
    T = rng.randint(9, 12)
    cols = ["a", "b", "c", "d"]
    px = {c: walk_prices(rng, T) for c in cols}
    for c in ("c", "d"):
        k = rng.choice([2, 3, T - 3, T - 2, T - 2])   # listed late, sometimes only just before the end
        px[c] = [None] * k + px[c][k:]
    prog = {"T": T, "cols": cols, "px": px, "extra": {},
            "bt": {"capital": 100000, "integer": rng.random() < 0.5, "comm": COMMS[rng.choice(["zero", "zero", "fix"])]}}
    kid = {"name": "k1", "algos": [list(rng.choice(CAL_SCHEDULERS[:3])), ["SelectAll", {}], ["WeighEqually", {}], ["Rebalance", {}]], "children": ["a", "b"]}
    st = [["SelectHasData", {"lookback": rng.choice([2, 3, 5]), "min_count": rng.choice([2, 3])}], ["WeighEqually", {}], ["Rebalance", {}]]
    prog["tree"] = {"name": "r", "algos": st, "children": [kid, "c", "d"]}
    prog["family"] = "hasdata_nested"
    return prog


def prog_closeroll(rng, **kw):
    """Positions with maturities: closed after their date, rolled into a successor,
    and only the still active names selected for (possibly random) weighting."""
    T = rng.randint(7, 10)
    cols = ["a", "b", "c", "d", "e"]
    prog = {"T": T, "cols": list(cols), "px": {c: walk_prices(rng, T) for c in cols}, "extra": {},
            "bt": {"capital": rng.choice([10000, 100000]), "integer": rng.random() < 0.5, "comm": COMMS[rng.choice(["zero", "zero", "fix"])]}}
    closing = rng.sample(cols[:3], rng.randint(1, 2))
    prog["extra"]["cd"] = {"__bydate__": True, "rows": {c: {"date": rng.randint(1, T - 2)} for c in closing}}
    rolling = [c for c in cols[:3] if c not in closing][:1]
    prog["extra"]["rd"] = {"__bydate__": True, "rows": {c: {"date": rng.randint(2, T - 2), "target": "e", "factor": rng.choice([1.0, 0.5, 2.0])} for c in rolling}}
    wg = rng.choice([["WeighEqually", {}], ["WeighRandomly", {}], ["WeighRandomly", {}]])
    sel = [["SelectAll", {}], ["SelectActive", {}]] + ([["SelectRandomly", {"n": 2}]] if rng.random() < 0.4 else [])
    st = [["ClosePositionsAfterDates", {"close_dates": "cd"}], ["RollPositionsAfterDates", {"roll_data": "rd"}]] + sel + [wg, ["Rebalance", {}]]
    prog["tree"] = {"name": "r", "algos": st, "children": [{"sec": c, "kind": "sec", "mult": 1} for c in cols]}
    prog["family"] = "closeroll"
    return prog


def prog_replay(rng, **kw):
    """A blotter of executed trades replayed through ReplayTransactions (custom
    prices, several trades per date and ticker, timestamps inside the day)."""
    T = rng.randint(6, 10)
    cols = TICKERS[: rng.choice([2, 3])]
    prog = {"T": T, "cols": list(cols), "px": {c: walk_prices(rng, T) for c in cols}, "extra": {"bidoffer": {}},
            "bt": {"capital": rng.choice([10000, 50000]), "integer": rng.random() < 0.5, "comm": COMMS[rng.choice(["zero", "zero", "fix", "prop"])]}}
    rows = []
    for r in range(T):
        for _ in range(rng.choice([0, 0, 1, 1, 2, 3])):
            c = rng.choice(cols)
            p_ = prog["px"][c][r]
            rows.append([r, c, rng.choice([10, 25, -10, -5, 40, 100]), p_ + rng.choice([0, 0, 1, -1, 2]), rng.choice([0, 0, 3, 6])])
    rows.sort(key=lambda x: (x[0], -x[4]))
    if rng.random() < 0.5:
        # per-ticker blotters, each in time order, glued together: not sorted by date overall
        rows = [r for c in rng.sample(list(cols), len(cols)) for r in rows if r[1] == c]
    prog["extra"]["blotter"] = {"__tx__": True, "rows": rows}
    st = [["ReplayTransactions", {"transactions": "blotter"}]]
    if rng.random() < 0.3:
        st.insert(0, ["CapitalFlow", {"amount": rng.choice([1000, -500])}])
    prog["tree"] = {"name": "r", "algos": st, "children": [{"sec": c, "kind": "sec", "mult": 1} for c in cols]}
    prog["family"] = "replay"
    return prog


def prog_risk(rng, **kw):
    """Risk-hedging strategies: positions in a..b, unit risks per measure published
    in frames of their own (one may carry history from before the price data, so
    the frames' row numbers differ), the residual risk hedged with c, d (C04)."""
    T = rng.randint(8, 12)
    cols = ["a", "b", "c", "d"]
    prog = {"T": T, "cols": cols, "px": {c: walk_prices(rng, T) for c in cols}, "extra": {},
            "bt": {"capital": 100000, "integer": False, "comm": COMMS["zero"]}}
    measures = ["m1", "m2"] if rng.random() < 0.8 else ["m1"]
    frames = {}
    for j, m in enumerate(measures):
        lead = rng.choice([0, 0, 2, 3]) if j == 0 else rng.choice([0, 0, 1])
        tab = {c: [rng.choice([1, 2, 3, 0.5, 1.5, -1, 4]) for _ in range(lead + T)] for c in cols}
        if lead:
            tab["__lead__"] = lead
        frames[m] = tab
    prog["extra"]["unit_risk"] = {"__group__": True, "frames": frames}
    w = {"a": float(rng.choice([Fraction(1, 2), Fraction(1, 4)])), "b": float(rng.choice([Fraction(1, 4), Fraction(0), Fraction(-1, 4)]))}
    inst = ["c", "d"][: len(measures)]
    st = [list(rng.choice([("RunDaily", {}), ("RunEveryNPeriods", {"n": 2})])), ["WeighSpecified", {"w": w}], ["Rebalance", {}]]
    st += [["UpdateRisk", {"measure": m}] for m in measures]
    st += [["SelectThese", {"tickers": inst, "include_no_data": True}], ["HedgeRisks", {"measures": measures}]]
    st += [["UpdateRisk", {"measure": m}] for m in measures]
    prog["tree"] = {"name": "r", "algos": st, "children": list(cols)}
    prog["family"] = "risk"
    return prog


def prog_cashstep(rng, **kw):
    """A portfolio that sits exactly on its target weights (whole units that divide
    the capital, no costs) and from some date on is asked to hold a cash fraction
    as well: the targets become (1 - cash) * weight while the weights stay."""
    T = rng.randint(5, 8)
    if rng.random() < 0.5:
        cols = ["a"]
        px = {"a": walk_prices(rng, T)}
        w = {"a": 1.0}
        capital = px["a"][0] * rng.choice([100, 250, 400])
    else:
        cols = ["a", "b"]
        pa, pb = rng.choice([10, 20, 25]), rng.choice([10, 40, 50])
        px = {"a": [pa] * T, "b": [pb] * T}   # flat prices: nobody drifts off target
        w = rng.choice([{"a": 0.5, "b": 0.5}, {"a": 0.25, "b": 0.75}, {"a": 1.0, "b": 0.0}])
        capital = pa * pb * rng.choice([40, 100])
    prog = {"T": T, "cols": cols, "px": px, "extra": {},
            "bt": {"capital": capital, "integer": True, "comm": COMMS["zero"]}}
    start = rng.randint(2, T - 1)
    c = float(rng.choice([Fraction(1, 5), Fraction(1, 2), Fraction(3, 10), Fraction(1, 10)]))
    st = [["RunDaily", {}], ["WeighSpecified", {"w": w}], ["SetCash", {"c": c, "start": start}], ["Rebalance", {}]]
    prog["tree"] = {"name": "r", "algos": st, "children": list(cols) if rng.random() < 0.5 else []}
    return prog


FAMILIES = {"hasdata_nested": prog_hasdata_nested, "closeroll": prog_closeroll, "replay": prog_replay, "risk": prog_risk, "cashstep": prog_cashstep, "fi": prog_fi, "nested09": prog_nested09, "lookback": prog_lookback, "flat": prog_flat, "nested": prog_nested, "bankrupt": prog_bankrupt, "flows": prog_flows}


def prog_by_family(seed, i, family):
    rng = random.Random((seed * 7919 + i * 104729) & 0xFFFFFFFF)
    fam = family
    if isinstance(family, (list, tuple)):
        fam = rng.choice(list(family))
    prog = tame_spreads(FAMILIES[fam](rng))
    prog.setdefault("family", fam)
    prog["idx"] = i
    return prog
