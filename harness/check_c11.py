"""C11: isolation, repeatability, inputs never mutated.
(A) MC_BtSession: TLC explores every interleaving of constructing / running /
re-running K backtests from one template under the ideal semantics and prints
every complete schedule; (B) each schedule is replayed into the real Backtest
class on programs with stateful and random algos (random seeds fixed before
each run), fingerprinting template, data and results after every step, plus a
solo reference per backtest and the same session under another
PYTHONHASHSEED in a subprocess; (C) Trace_BtSession judges every step."""
import copy
import hashlib
import json
import os
import random
import subprocess
import sys

import btdrv
import btgen
import common
import pairdrv
import tlcrun
from treedrv import bt, np, pd


def deep_digest(obj, depth=0, seen=None):
    """Deterministic digest of an object graph (strategy template: nodes, algo
    attribute trees, frames by raw bytes)."""
    seen = seen if seen is not None else set()
    h = hashlib.sha256()

    def feed(x, d):
        if id(x) in seen and not isinstance(x, (int, float, str, bool, type(None))):
            h.update(b"<cycle>")
            return
        if isinstance(x, (pd.DataFrame, pd.Series)):
            h.update(type(x).__name__.encode())
            h.update(repr(list(getattr(x, "columns", []))).encode())
            h.update(repr([str(i) for i in x.index]).encode())
            try:
                arr = x.to_numpy(dtype=float, na_value=np.nan)
            except Exception:  # noqa: BLE001 - non numeric content
                arr = x.astype(str).to_numpy()
                h.update(repr(arr.tolist()).encode())
                return
            h.update(np.ascontiguousarray(arr).tobytes())
            return
        if isinstance(x, np.ndarray):
            h.update(x.tobytes())
            return
        if isinstance(x, (int, float, str, bool, type(None), bytes)):
            h.update(repr(x).encode())
            return
        if d > 8:
            h.update(b"<deep>")
            return
        seen.add(id(x))
        if isinstance(x, dict):
            for k in sorted(x, key=repr):
                h.update(repr(k).encode())
                feed(x[k], d + 1)
            return
        if isinstance(x, (list, tuple, set, frozenset)):
            items = sorted(x, key=repr) if isinstance(x, (set, frozenset)) else x
            h.update(type(x).__name__.encode())
            for y in items:
                feed(y, d + 1)
            return
        if callable(x) and not hasattr(x, "__dict__"):
            h.update(getattr(x, "__qualname__", "fn").encode())
            return
        h.update(type(x).__name__.encode())
        dd = getattr(x, "__dict__", None)
        if dd:
            for k in sorted(dd):
                if k in ("parent", "root"):
                    continue
                h.update(k.encode())
                feed(dd[k], d + 1)

    feed(obj, depth)
    return h.hexdigest()


def result_fp(b, prog):
    d = pairdrv.digests(b, prog)
    # what the algos were shown, in the order they were shown it: the universe of every
    # strategy node (column order) and the order of the transaction report
    try:
        d["universe_columns"] = {m.full_name: [str(c) for c in m.universe.columns] for m in b.strategy.members if isinstance(m, bt.core.StrategyBase)}
    except Exception as e:  # noqa: BLE001
        d["universe_columns"] = "raised " + type(e).__name__
    return hashlib.sha256(json.dumps(d, sort_keys=True).encode()).hexdigest()


SETTINGS = [
    dict(commissions=None, integer_positions=True, initial_capital=10000.0),
    dict(commissions="fix", integer_positions=True, initial_capital=10000.0),
    dict(commissions="prop", integer_positions=False, initial_capital=25000.0),
]


def _settings(k):
    s = dict(SETTINGS[k % len(SETTINGS)])
    if s["commissions"]:
        import treedrv

        s["commissions"] = treedrv.comm_fn(btgen.COMMS[s["commissions"]])
    return s


class RunCounter(bt.core.Algo):
    COUNT = {}

    def __init__(self):
        super().__init__()
        self.run_always = True

    def __call__(self, target):
        RunCounter.COUNT[id(target.root)] = RunCounter.COUNT.get(id(target.root), 0) + 1
        return True


def build_inputs(prog):
    tmpl = btdrv.build_node(prog["tree"], prog, [], lazy=True)
    tmpl.stack.algos = (RunCounter(),) + tuple(tmpl.stack.algos)
    tmpl.stack.check_run_always = True
    data = btdrv.frame(prog, prog["px"], prog["cols"])
    ex = btdrv.build_extras(prog)
    return tmpl, data, ex


def fp_inputs(data, ex):
    return deep_digest({"data": data, "extra": ex})


def play(prog, schedule, base_seed):
    """Replay one schedule; returns (events with raw fingerprints, solo fps)."""
    k = max(b for _, b in schedule)
    tmpl, data, ex = build_inputs(prog)
    fpT0, fpD0 = deep_digest(tmpl), fp_inputs(data, ex)
    bts = {}
    events = []
    for op, b in schedule:
        if op == "construct":
            bts[b] = bt.Backtest(tmpl, data, additional_data=(ex or None), **_settings(b - 1))
        else:
            if op == "run":
                random.seed(base_seed + b)
                np.random.seed(base_seed + b)
            bts[b].run()
        res = {o: (result_fp(x, prog) if x.has_run else "0") for o, x in bts.items()}
        events.append({"op": op, "b": b, "fpT": deep_digest(tmpl), "fpD": fp_inputs(data, ex), "res": res.get(b, "0"),
                       "runs": RunCounter.COUNT.get(id(bts[b].strategy), 0), "others": res})
    return {"fpT0": fpT0, "fpD0": fpD0, "events": events, "k": k}


def solo(prog, k, base_seed):
    out = {}
    for b in range(1, k + 1):
        tmpl, data, ex = build_inputs(prog)
        x = bt.Backtest(tmpl, data, additional_data=(ex or None), **_settings(b - 1))
        random.seed(base_seed + b)
        np.random.seed(base_seed + b)
        x.run()
        out[b] = result_fp(x, prog)
    return out


def _job(args):
    seed, i, schedule = args
    prog = btgen.prog_by_family(seed, i, ["lookback", "lookback", "flat", "nested", "closeroll", "closeroll", "replay"])
    try:
        ses = play(prog, schedule, 1000 + i)
        ses["solo"] = solo(prog, ses["k"], 1000 + i)
    except Exception as e:  # noqa: BLE001
        return {"i": i, "exc": type(e).__name__ + ": " + str(e)[:100], "prog": prog}
    return {"i": i, "exc": "none", "ses": ses, "prog": prog, "schedule": schedule}


def _ids(ses, other):
    """first-occurrence ids for the fingerprints of one session"""
    ids = {"0": 0}

    def g(x):
        if x not in ids:
            ids[x] = len(ids)
        return ids[x]

    k = ses["k"]
    tr = {"k": k, "fpT0": g("T" + ses["fpT0"]), "fpD0": g("D" + ses["fpD0"]), "solo": [g(ses["solo"][b]) for b in range(1, k + 1)],
          "otherseed": [g(other[str(b)]) if other and str(b) in other else 0 for b in range(1, k + 1)], "events": []}
    for e in ses["events"]:
        tr["events"].append({"op": e["op"], "b": e["b"], "fpT": g("T" + e["fpT"]), "fpD": g("D" + e["fpD"]), "res": g(e["res"]), "runs": e["runs"],
                             "others": [g(e["others"].get(o, "0")) for o in range(1, k + 1)]})
    return tr


def schedules_from_tlc(rep):
    out, secs = tlcrun.run_tlc("MC_BtSession", cfg="MC_BtSession_emit.cfg", workers=1, timeout=300)
    gen, dist = tlcrun.stats(out)
    ok = "Model checking completed. No error has been found" in out
    rep.add_tlc(gen, dist, key="design:MC_BtSession(K=2, emit)", seconds=round(secs, 1), complete=ok)
    sch = []
    for v in tlcrun._parse_tuple_lines(out, "H"):
        sch.append([(op, b) for op, b in v[1]])
    uniq = []
    for s in sch:
        if s not in uniq:
            uniq.append(s)
    if not ok or not uniq:
        rep.machinery_errors.append("MC_BtSession emitted no schedules: " + out[-500:])
    return uniq


def other_seed_results(seed, i, schedule, hashseed):
    """The same session in a fresh interpreter with another hash seed."""
    env = dict(os.environ, PYTHONHASHSEED=str(hashseed))
    code = ("import sys, json; sys.path.insert(0, %r); import check_c11 as c; import btgen; "
            "prog = btgen.prog_by_family(%d, %d, ['lookback','lookback','flat','nested','closeroll','closeroll','replay']); "
            "print('RES', json.dumps(c.solo(prog, %d, %d)))" % (os.path.dirname(os.path.abspath(__file__)), seed, i, max(b for _, b in schedule), 1000 + i))
    p = subprocess.run([sys.executable, "-c", code], env=env, capture_output=True, text=True, timeout=300)
    for line in p.stdout.splitlines():
        if line.startswith("RES "):
            return json.loads(line[4:])
    return None


def run(prop, tier, replay=None):
    known_db = common.load_known()
    rep = common.Report(prop, tier)
    seed = common.seed()
    out, secs = tlcrun.run_tlc("MC_BtSession", cfg="MC_BtSession.cfg", workers=common.NCPU, timeout=600)
    gen, dist = tlcrun.stats(out)
    complete = "Model checking completed. No error has been found" in out
    rep.add_tlc(gen, dist, key="design:MC_BtSession(K=3)", seconds=round(secs, 1), complete=complete)
    if not complete:
        rep.machinery_errors.append("MC_BtSession did not pass: " + out[-500:])
    rep.cov["exhaustive"] = complete
    sched = schedules_from_tlc(rep)
    rng = random.Random(seed)
    nprog = 24 if tier == "quick" else 80
    jobs = []
    for j in range(nprog):
        for s in sched:
            jobs.append((seed, j, s))
    if tier == "quick":
        rng.shuffle(jobs)
        jobs = jobs[:96]
    if replay:
        p = json.load(open(replay))
        jobs = [(p["seed"], p["i"], [tuple(x) for x in p["schedule"]])]
    res = common.pool_map(_job, jobs, chunksize=2)
    # other hash seed: a few sessions in fresh interpreters
    nhs = 24 if tier == "quick" else 160
    others = {}
    import concurrent.futures as cf

    pick, seen_prog = [], set()
    for r in res:  # one session per distinct program
        if r["exc"] == "none" and r["i"] not in seen_prog:
            seen_prog.add(r["i"])
            pick.append(r)
    pick = pick[:nhs]
    with cf.ThreadPoolExecutor(max_workers=8) as ex:
        futs = {ex.submit(other_seed_results, seed, r["i"], r["schedule"], 7 + n): r["i"] for n, r in enumerate(pick)}
        for f, i in futs.items():
            try:
                others[i] = f.result()
            except Exception:  # noqa: BLE001
                others[i] = None
    traces, owner = [], {}
    for r in res:
        if r["exc"] != "none":
            continue
        t = _ids(r["ses"], others.get(r["i"]))
        t["tid"] = len(traces) + 1
        owner[t["tid"]] = r
        traces.append(t)
    try:
        verdicts, st = common.validate_parallel("Trace_BtSession", traces, batch=200)
    except tlcrun.TlcError as e:
        rep.machinery_errors.append(str(e)[:1500])
        return rep.finish(known_db)
    rep.add_tlc(st["generated"], st["distinct"], key="validation:Trace_BtSession", seconds=round(st["seconds"], 1), batches=st["batches"])
    rep.cov["traces_validated_against_impl"] = len(verdicts)
    counts = {}
    seen = set()
    for tid, v in sorted(verdicts.items()):
        counts[v["verdict"]] = counts.get(v["verdict"], 0) + 1
        if v["verdict"] == "FAIL":
            r = owner[tid]
            sig = tuple(sorted(c.split("[")[0] for c in v["clauses"]))
            if sig == ("C11.hashseed",) and known_db.get("F7", {}).get("status") == "open":
                rep.known["F7"] = rep.known.get("F7", 0) + 1
                continue
            if sig in seen and len(rep.violations) >= 4:
                continue
            seen.add(sig)
            rep.violation(sig, {"kind": "c11", "seed": seed, "i": r["i"], "schedule": r["schedule"], "prog": r["prog"], "verdict": v},
                          "program %d schedule %s step %d: %s" % (r["i"], r["schedule"], v["at"], ", ".join(v["clauses"])))
    rep.extra["verdicts"] = counts
    rep.extra["sessions"] = len(res)
    rep.extra["sessions_raising"] = sum(1 for r in res if r["exc"] != "none")
    rep.extra["schedules_from_tlc"] = len(sched)
    rep.extra["hash_seed_sessions"] = len([o for o in others.values() if o])
    if traces:
        rep.cov["samples"] = [{"schedule": owner[1]["schedule"], "program": owner[1]["prog"]["tree"], "events": traces[0]["events"][:6]}]
    rep.extra["sources"] = __import__("btload").source_info()
    rep.assumptions = ["random seeds (random, numpy) are fixed before each run", "fingerprints are deep digests of template / data / recorded histories mapped to first-occurrence ids"]
    return rep.finish(known_db)
