"""Relational checks judged on pairs of runs by Trace_BtPair:
  C04  no look-ahead: same program, data after a cut date perturbed -> everything
       recorded up to the cut is bit-for-bit identical
"""
import json
import random

import btdrv
import btgen
import common
import pairdrv
import tlcrun


def _c04(args):
    """One program, K perturbed variants (different cuts / perturbation kinds)."""
    seed, i, K = args
    rng = random.Random((seed * 48271 + i * 69621) & 0xFFFFFFFF)
    fam = rng.choice(["lookback", "lookback", "lookback", "flat", "nested", "flows", "risk", "replay", "fi", "closeroll", "hasdata_nested", "hasdata_nested", "hasdata_nested"])
    prog = btgen.prog_by_family(seed, i, fam)
    T = prog["T"]
    outs = []
    ra = btdrv.run_program(prog, record=False, seed=seed * 131 + i)
    da = pairdrv.digests(ra["bt"], prog) if (ra["exc"] == "none" and "bt" in ra) else None
    for k in range(K):
        cut = rng.randint(1, T - 1)  # data rows 1..cut are kept
        pert, changed = pairdrv.perturb(prog, cut, rng)
        out = {"i": i, "k": k, "family": fam, "cut": cut, "changed": changed, "algos": [a[0] for a in prog["tree"]["algos"]]}
        outs.append(out)
        if da is None:
            out["exc"] = (ra["exc"], "-")
            continue
        rb = btdrv.run_program(pert, record=False, seed=seed * 131 + i)
        out["exc"] = (ra["exc"], rb["exc"])
        if "bt" not in rb:
            continue
        if rb["exc"] != "none":
            # the perturbed run may legitimately stop after the cut (a price that went missing
            # under an open position): the reports of a crashed tree are not comparable
            continue
        db = pairdrv.digests(rb["bt"], pert)
        out["trace"] = {
            "prop": "C04", "rel": "prefix", "cut": cut + 1,
            "series": [{"name": "C04." + f, "a": da[f], "b": db[f]} for f in pairdrv.FAMILIES],
            "pre": [{"name": "inputs", "a": pairdrv.input_digest(prog), "b": pairdrv.input_digest(pert)}],
        }
        out["prog"] = prog
        out["pert"] = pert
    return outs


def run_c04(prop, tier, replay=None):
    known_db = common.load_known()
    rep = common.Report(prop, tier)
    seed = common.seed()
    n = 500 if tier == "quick" else 5000
    K = 3 if tier == "quick" else 6
    if replay:
        p = json.load(open(replay))
        res = [_replay_c04(p)]
    else:
        res = [o for outs in common.pool_map(_c04, [(seed, i, K) for i in range(n)], chunksize=2) for o in outs]
    traces = []
    owner = {}
    for r in res:
        if "trace" in r:
            t = r["trace"]
            t["tid"] = len(traces) + 1
            owner[t["tid"]] = r
            traces.append(t)
    try:
        verdicts, st = common.validate_parallel("Trace_BtPair", traces, batch=400)
    except tlcrun.TlcError as e:
        rep.machinery_errors.append(str(e)[:1500])
        return rep.finish(known_db)
    rep.add_tlc(st["generated"], st["distinct"], key="validation:Trace_BtPair", seconds=round(st["seconds"], 1), batches=st["batches"])
    rep.cov["traces_validated_against_impl"] = len(verdicts)
    counts = {}
    algos_seen = {}
    for r in res:
        for a in r.get("algos", []):
            algos_seen[a] = algos_seen.get(a, 0) + (1 if "trace" in r else 0)
    for tid, v in sorted(verdicts.items()):
        counts[v["verdict"]] = counts.get(v["verdict"], 0) + 1
        if v["verdict"] == "FAIL":
            r = owner[tid]
            if any(c.startswith("PRE.") for c in v["clauses"]):
                rep.machinery_errors.append("pair %d is not an instance of the property: inputs differ before the cut" % r["i"])
                continue
            rep.violation(tuple(sorted(c.split("[")[0] for c in v["clauses"])), {"kind": "c04", "prog": r["prog"], "pert": r["pert"], "cut": r["cut"], "seed": seed * 131 + r["i"], "verdict": v},
                          "program %d (%s, %s) cut after data row %d: differs in %s" % (r["i"], r["family"], "/".join(r["algos"]), r["cut"], ", ".join(v["clauses"])))
    rep.extra["verdicts"] = counts
    rep.extra["pairs"] = len(res)
    rep.extra["pairs_skipped_raise"] = sum(1 for r in res if "trace" not in r)
    rep.extra["pairs_where_perturbation_changed_data"] = sum(1 for r in res if r.get("changed"))
    rep.extra["algos_in_judged_programs"] = algos_seen
    rep.cov["states"] = max(rep.cov["states"], 1)
    rep.cov["transitions"] = max(rep.cov["transitions"], 1)
    if traces:
        r = owner[1]
        rep.cov["samples"] = [{"program": r["prog"]["tree"], "cut_after_row": r["cut"], "digests_values_A": traces[0]["series"][1]["a"], "digests_values_B": traces[0]["series"][1]["b"]}]
    rep.extra["sources"] = __import__("btload").source_info()
    rep.assumptions = ["the date index itself is kept (run_on_last_date / end-of-period modes legitimately depend on which dates exist)",
                       "comparison is per node under the abstraction absent lazy child == flat child; bit-for-bit through CRCs of the IEEE patterns",
                       "pairs whose base run raises are skipped (C10's business)"]
    return rep.finish(known_db)


def _replay_c04(p):
    prog, pert = p["prog"], p["pert"]
    ra = btdrv.run_program(prog, record=False, seed=p["seed"])
    rb = btdrv.run_program(pert, record=False, seed=p["seed"])
    da = pairdrv.digests(ra["bt"], prog)
    db = pairdrv.digests(rb["bt"], pert)
    return {"i": 0, "family": prog.get("family"), "cut": p["cut"], "changed": True, "algos": [a[0] for a in prog["tree"]["algos"]], "prog": prog, "pert": pert,
            "trace": {"prop": "C04", "rel": "prefix", "cut": p["cut"] + 1, "series": [{"name": "C04." + f, "a": da[f], "b": db[f]} for f in pairdrv.FAMILIES],
                      "pre": [{"name": "inputs", "a": pairdrv.input_digest(prog), "b": pairdrv.input_digest(pert)}]}}


# ---------------------------------------------------------------------------
# C09: a sub-strategy's index equals its stand-alone index
# ---------------------------------------------------------------------------
def _fix(x):
    import math

    if x is None or (isinstance(x, float) and math.isnan(x)):
        return -1
    v = round(float(x) * 1e6)
    return int(v) if abs(v) < 2**31 else -2


def _c09(args):
    seed, i = args
    import btdrv as B
    from treedrv import bt, pd

    prog = btgen.prog_by_family(seed, i, "nested09")
    out = {"i": i, "prog": prog, "algos": [a[0] for a in prog["tree"]["algos"]]}
    lazy = (seed + i) % 2 == 0   # children named by strings, or Security objects built up front
    out["lazy"] = lazy
    rn = B.run_program(prog, record=False, seed=seed * 131 + i, lazy=lazy)
    out["exc"] = rn["exc"]
    if rn["exc"] != "none":
        out["msg"] = rn["msg"]
        return out
    b = rn["bt"]
    series = []
    for pth, d in B.sub_descs(prog["tree"]):
        node = b.strategy
        for nm in pth:
            node = node.children[nm]
        parent = node.parent
        # the same definition on its own
        sp = dict(prog)
        sp["tree"] = d
        sp["bt"] = dict(prog["bt"], capital=1000000)
        rs = B.run_program(sp, record=False, seed=seed * 131 + i, lazy=lazy)
        if rs["exc"] != "none":
            out.setdefault("standalone_exc", []).append((">".join(pth), rs["exc"], rs["msg"][:80]))
            continue
        name = ">".join(pth)
        a = [_fix(x) for x in node.prices.values]
        s_ = [_fix(x) for x in rs["bt"].strategy.prices.values]
        series.append({"name": "C09.index[%s]" % name, "a": a, "b": s_})
        u = [_fix(x) for x in parent.universe[node.name].values]
        # the column is filled as dates are visited; the pre-start row included
        series.append({"name": "C09.universe[%s]" % name, "a": a, "b": u})
        series.append({"name": "C09.bits[%s]" % name, "a": [int(x.hex() == y.hex()) for x, y in zip(map(float, node.prices.values), map(float, rs["bt"].strategy.prices.values))], "b": [1] * len(a)})
    if series:
        out["trace"] = {"prop": "C09", "rel": "equal", "cut": 0, "series": series, "pre": []}
    return out


def run_c09(prop, tier, replay=None):
    known_db = common.load_known()
    rep = common.Report(prop, tier)
    seed = common.seed()
    n = 120 if tier == "quick" else 3000
    if replay:
        p = json.load(open(replay))
        res = [_c09((p["seed"], p["i"]))]
    else:
        res = common.pool_map(_c09, [(seed, i) for i in range(n)], chunksize=2)
    traces, owner = [], {}
    for r in res:
        if "trace" in r:
            t = r["trace"]
            t["tid"] = len(traces) + 1
            owner[t["tid"]] = r
            traces.append(t)
    try:
        verdicts, st = common.validate_parallel("Trace_BtPair", traces, batch=400)
    except tlcrun.TlcError as e:
        rep.machinery_errors.append(str(e)[:1500])
        return rep.finish(known_db)
    rep.add_tlc(st["generated"], st["distinct"], key="validation:Trace_BtPair", seconds=round(st["seconds"], 1), batches=st["batches"])
    rep.cov["traces_validated_against_impl"] = len(verdicts)
    counts = {}
    for tid, v in sorted(verdicts.items()):
        counts[v["verdict"]] = counts.get(v["verdict"], 0) + 1
        if v["verdict"] == "FAIL":
            r = owner[tid]
            rep.violation(tuple(sorted(c.split("[")[0] for c in v["clauses"])), {"kind": "c09", "prog": r["prog"], "seed": seed, "i": r["i"], "verdict": v},
                          "program %d: %s" % (r["i"], ", ".join(v["clauses"][:4])))
    rep.extra["verdicts"] = counts
    rep.extra["programs"] = len(res)
    rep.extra["programs_raising"] = sum(1 for r in res if r["exc"] != "none")
    rep.cov["states"] = max(rep.cov["states"], 1)
    rep.cov["transitions"] = max(rep.cov["transitions"], 1)
    if traces:
        rep.cov["samples"] = [{"program": owner[1]["prog"]["tree"], "series": traces[0]["series"][:2]}]
    rep.extra["sources"] = __import__("btload").source_info()
    rep.assumptions = ["sub-strategy stacks are gated by calendar schedulers (the property's quantifier)", "index levels compared in fixed point (1e-6) and bit for bit"]
    return rep.finish(known_db)
