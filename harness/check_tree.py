"""Tree-level checks (C01, C02, C03, C07, C08, C16 and the tree part of C10):
 (A) design check of the abstract ledger with TLC (MC_BtAbs, exhaustive within
     the stated constants),
 (B) operation histories replayed into the real tree from /repo's working tree,
 (C) every recorded execution validated by TLC against Trace_BtAbs; a
     VIOLATION is raised only by a failing clause of the property checked.
"""
import json
import os
import random
import re
import sys

import common
import tlcrun
import treedrv
import treegen

# per-property profile: MC configs (Which, MaxOps, MaxT, Slice), generator emphasis
PROFILES = {
    "C01": dict(mc=[("N1zero", 2, 2, 3)], mc_thorough=[("N1zero", 2, 2, 1), ("F2fix", 2, 2, 2), ("N1fix", 2, 2, 3), ("F2zero", 2, 3, 1)],
                gen=dict(nops=12, zerodip=True, p_custom=0.2, giveaway=0.12, trees=["F2", "F3", "N1", "S2", "N2", "F2", "F3", "N1", "S2", "N2", "FI3", "FI4", "MC3", "MCN"]), n=(240, 4000), lazy=0.4),
    "C02": dict(mc=[("F2fix", 2, 2, 1)], mc_thorough=[("F2fix", 2, 2, 2), ("F2tier", 2, 2, 1), ("N1fix", 2, 2, 3), ("F2unit", 2, 3, 1), ("FIfix", 2, 2, 1)],
                gen=dict(nops=12, trees=["F2", "F3", "N1", "S2", "N2", "FI3", "FI4", "FI4", "MC3", "MCN"], zerodip=True,
                         mix=[{}, {}, {}, {"trees": ["MC3", "MCN", "MC3"], "crash": True, "leverage": True, "zerodip": False}]), n=(240, 4000), lazy=0.2),
    "C03": dict(mc=[("F2zero", 2, 2, 1)], mc_thorough=[("F2zero", 2, 3, 1), ("F2zero", 3, 2, 1), ("F2fix", 2, 2, 2), ("N1zero", 2, 2, 3)],
                gen=dict(nops=14, p_flow=0.45, trees=["F2", "F3", "N1", "S2", "N2", "MC3", "MCN", "MC3"]), n=(240, 4000), lazy=0.0),
    "C07": dict(mc=[("F2tier", 2, 2, 1)], mc_thorough=[("F2tier", 2, 2, 2), ("F2unit", 2, 2, 1), ("N1fix", 2, 2, 3), ("F2fix", 2, 3, 1)],
                gen=dict(nops=14, p_custom=0.3, same_sec=True, penny=True, zero_outlay=0.3, daytrade=0.1), n=(240, 4000), lazy=0.2),
    "C08": dict(mc=[("F2unit", 2, 2, 1)], mc_thorough=[("F2unit", 2, 2, 2), ("F2zero", 3, 2, 1), ("N1zero", 2, 2, 3), ("F2fix", 2, 3, 1)],
                gen=dict(nops=14, p_redundant=0.4, p_unsettled=0.15, same_sec=True, p_custom=0.2, daytrade=0.2, reopen=0.25, giveaway=0.1), n=(240, 4000), lazy=0.3),
    "C17": dict(mc=[("FIzero", 2, 2, 1)], mc_thorough=[("FIzero", 2, 3, 1), ("FIfix", 2, 2, 2), ("FIzero", 3, 2, 1)],
                gen=dict(nops=14, trees=["FI3", "FI4", "FIN"], fund_subs=False), n=(240, 4000), lazy=0.0),
    "C16": dict(mc=[("F2zero", 2, 2, 2)], mc_thorough=[("F2zero", 2, 3, 2), ("N1zero", 2, 2, 2), ("F2fix", 2, 2, 2), ("F2zero", 3, 2, 2)],
                gen=dict(nops=12, crash=True, leverage=True, mix=[{}, {}, {"comm": "gouge"}, {"trees": ["MC3", "MC3", "MCN"], "brink": 0.35, "crash": False, "leverage": False, "nops": 16, "flatpx": True, "comm": "zero", "spread": 0}]), n=(240, 4000), lazy=0.0),
}

MC_INVARIANTS = """INVARIANT NoOverflow
INVARIANT Inv_C01_Snapshot
INVARIANT Inv_C01_WeightsSum
INVARIANT Inv_C07_Ledger
INVARIANT Inv_C02_Conservation
INVARIANT Inv_C16_FlagIff
INVARIANT Inv_C16_Liquidated
INVARIANT Inv_C17_Notional
PROPERTY Act_C02_TradesValueNeutral
PROPERTY Act_C03_FlowNeutral
PROPERTY Act_C16_Terminal
PROPERTY Act_C08_RefreshIdempotent
VIEW View
CHECK_DEADLOCK FALSE
"""


REPOTESTS = ("C01", "C02", "C03", "C07", "C08", "C16", "C17")
REPOTESTS_QUICK = ("C07",)


def run_mc(rep, which, maxops, maxt, slice_, timeout):
    d = tlcrun.scratch_dir()
    cfg = os.path.join(d, "mc.cfg")
    with open(cfg, "w") as fh:
        fh.write('SPECIFICATION Spec\nCONSTANTS\n  Which = "%s"\n  MaxOps = %d\n  MaxT = %d\n  Slice = %d\n%s' % (which, maxops, maxt, slice_, MC_INVARIANTS))
    try:
        out, secs = tlcrun.run_tlc("MC_BtAbs", cfg=cfg, workers=common.NCPU, timeout=timeout)
    finally:
        import shutil

        shutil.rmtree(d, ignore_errors=True)
    gen, dist = tlcrun.stats(out)
    complete = "Model checking completed. No error has been found" in out
    err = re.search(r"Error: (Invariant|Action property|Temporal) ?(\S+)? ?(\S+)? is violated", out)
    info = dict(config="MC_BtAbs Which=%s MaxOps=%d MaxT=%d Slice=%d" % (which, maxops, maxt, slice_), seconds=round(secs, 1), complete=complete)
    rep.add_tlc(gen, dist, key="design:MC_BtAbs", **info)
    if err or ("Error:" in out and not complete and "TIMEOUT" not in out):
        rep.machinery_errors.append("design check MC_BtAbs %s failed: %s" % (which, (err.group(0) if err else out[-800:])))
    return complete


IMPL_INVARIANTS = """INVARIANT NoOverflowI
INVARIANT Inv_Refines
INVARIANT Inv_C08_NothingBeyondNow
INVARIANT Inv_Flags
PROPERTY Act_C08_UpdateIdempotent
PROPERTY Act_C08_HistoryFrozen
VIEW View
CHECK_DEADLOCK FALSE
"""
# refinement check of the lazy update machinery (BtImpl under BtAbs): quick / thorough configurations
IMPL_MC = {"quick": [("F2fix", 2, 2, 1), ("F2unit", 2, 2, 1), ("N1fix", 2, 2, 1)],
           "thorough": [("F2fix", 2, 2, 1), ("F2tier", 2, 2, 1), ("F2zero", 2, 2, 1), ("N1fix", 2, 2, 1), ("N1zero", 2, 2, 1), ("F2unit", 2, 2, 1), ("F2fix", 3, 2, 3)]}


def run_mc_impl(rep, which, maxops, maxt, slice_, timeout):
    d = tlcrun.scratch_dir()
    cfg = os.path.join(d, "mc.cfg")
    with open(cfg, "w") as fh:
        fh.write('SPECIFICATION Spec\nCONSTANTS\n  Which = "%s"\n  MaxOps = %d\n  MaxT = %d\n  Slice = %d\n  Guarded = TRUE\n%s' % (which, maxops, maxt, slice_, IMPL_INVARIANTS))
    try:
        out, secs = tlcrun.run_tlc("MC_BtImpl", cfg=cfg, workers=common.NCPU, timeout=timeout)
    finally:
        import shutil

        shutil.rmtree(d, ignore_errors=True)
    gen, dist = tlcrun.stats(out)
    complete = "Model checking completed. No error has been found" in out
    err = re.search(r"Error: (Invariant|Action property|Temporal) ?(\S+)? ?(\S+)? is violated", out)
    rep.add_tlc(gen, dist, key="design:MC_BtImpl (refinement of BtAbs)", config="Which=%s MaxOps=%d MaxT=%d Slice=%d" % (which, maxops, maxt, slice_), seconds=round(secs, 1), complete=complete)
    if err or ("Error:" in out and not complete and "TIMEOUT" not in out):
        rep.machinery_errors.append("design check MC_BtImpl %s failed: %s" % (which, (err.group(0) if err else out[-800:])))
    return complete


def _run_one(args):
    seed, idx, kw, lazy_p = args
    for i, rng, C, g in treegen.scenario_stream(seed, idx + 1, **kw):
        if i == idx:
            lazy = rng.random() < lazy_p
            tr = treedrv.run_online(C, g, tid=idx + 1, lazy=lazy)
            tr["lazy"] = lazy
            return tr


def _run_one_fast(args):
    seed, idx, kw, lazy_p = args
    rng = random.Random((seed * 1000003 + idx) & 0xFFFFFFFF)
    if "mix" in kw:  # every len(mix)-th scenario takes one of the override sets
        kw = dict(kw)
        mix = kw.pop("mix")
        kw.update(mix[idx % len(mix)])
    ckw = {k: v for k, v in kw.items() if k in ("tree", "T", "comm", "spread", "integer", "late", "crash", "D", "delist", "zerodip", "penny", "flatpx")}
    gkw = {k: v for k, v in kw.items() if k in treegen.GEN_KEYS}
    if "trees" in kw:
        ckw["tree"] = rng.choice(kw["trees"])
    else:
        ckw["tree"] = rng.choice(["F2", "F3", "N1", "S2", "N2"])
    C = treegen.make_C(rng, **ckw)
    if C["fi"][0]:
        gkw["fund_subs"] = False
    g = treegen.HistoryGen(rng, C, **gkw)
    lazy = rng.random() < lazy_p and not C["fi"][0]
    tr = treedrv.run_online(C, g, tid=idx + 1, lazy=lazy)
    tr["lazy"] = lazy
    return tr


def _run_pair(args):
    """C08: base history + variant with redundant updates/reads inserted."""
    seed, idx, kw, lazy_p = args
    rng = random.Random((seed * 1000003 + idx) & 0xFFFFFFFF)
    ckw = {k: v for k, v in kw.items() if k in ("tree", "T", "comm", "spread", "integer", "late", "crash", "D", "zerodip", "penny")}
    gkw = {k: v for k, v in kw.items() if k in treegen.GEN_KEYS}
    gkw["p_unsettled"] = 0.0
    gkw["reopen"] = 0.4
    ckw.setdefault("tree", rng.choice(["F2", "F3", "F3", "N1", "S2", "N2"]))
    if rng.random() < 0.7:
        ckw.setdefault("spread", rng.choice([2, 4]))  # bid/offer accounting on: more state to keep consistent
    C = treegen.make_C(rng, **ckw)
    g = treegen.HistoryGen(rng, C, **gkw)
    lazy = rng.random() < lazy_p
    base = treedrv.run_online(C, g, tid=2 * idx + 1, lazy=lazy)
    if "setup_exc" in base:
        return [base]
    b, v = treedrv.run_variant(C, base["ops"], rng, tid=2 * idx + 1, lazy=lazy)
    b["lazy"] = v["lazy"] = lazy
    return [b, v]


def classify(rep, prop, traces, verdicts, known_db):
    """Turn TLC verdicts into violations / known findings of `prop`."""
    by_tid = {t["tid"]: t for t in traces}
    counts = {"OK": 0, "FAIL": 0, "KNOWN": 0, "SKIP": 0}
    other = {}
    clause_evals = 0
    seen_sig = set()
    for tid, v in sorted(verdicts.items()):
        counts[v["verdict"]] = counts.get(v["verdict"], 0) + 1
        tr = by_tid[tid]
        for _, ks in v.get("knowns", []):
            for k in ks:
                kid = k.split(":", 1)[0]
                if prop in known_db.get(kid, {}).get("properties", []):
                    rep.known[kid] = rep.known.get(kid, 0) + 1
        if v["verdict"] == "KNOWN":
            kid = v["kf"]
            e = known_db.get(kid)
            if e is None or e.get("status") != "open":
                # not (or no longer) a listed open finding: a violation
                mine = [c for c in v["clauses"] if common.clause_prop(c) == prop]
                if mine:
                    _violate(rep, prop, tr, v, mine, seen_sig, note="signature %s is not an open known finding" % kid)
            elif prop in e.get("properties", []):
                rep.known[kid] = rep.known.get(kid, 0) + 1
        elif v["verdict"] == "FAIL":
            mine = [c for c in v["clauses"] if common.clause_prop(c) == prop]
            if mine:
                _violate(rep, prop, tr, v, mine, seen_sig)
            else:
                for c in v["clauses"]:
                    other[common.clause_prop(c)] = other.get(common.clause_prop(c), 0) + 1
    vc = rep.extra.setdefault("verdicts", {})
    for k, x in counts.items():
        vc[k] = vc.get(k, 0) + x
    if other:
        o = rep.extra.setdefault("failures_of_other_properties_seen", {})
        for k, x in other.items():
            o[k] = o.get(k, 0) + x
    return counts


def _violate(rep, prop, tr, v, mine, seen_sig, note=""):
    sig = tuple(sorted(set(re.sub(r"\[\d+\]", "", c) for c in mine)))
    if sig in seen_sig and len(rep.violations) >= 5:
        return
    seen_sig.add(sig)
    payload = {"kind": "tree", "property": prop, "C": tr["C"], "ops": tr["ops"], "lazy": tr.get("lazy", False), "verdict": v, "note": note}
    if tr.get("base_ops"):
        payload["base_ops"] = tr["base_ops"]
    rep.violation(sig, payload, "trace %d (%s) event %d: clauses %s %s" % (tr["tid"], tr["C"].get("tree"), v["at"], ",".join(mine[:6]), note))


def run(prop, tier, replay=None):
    known_db = common.load_known()
    rep = common.Report(prop, tier)
    prof = PROFILES[prop]
    if replay:
        return do_replay(prop, replay)
    seed = common.seed()
    # (A) design check
    mcs = prof["mc"] if tier == "quick" else prof["mc_thorough"]
    complete = True
    for which, mo, mt, sl in mcs:
        complete &= run_mc(rep, which, mo, mt, sl, timeout=240 if tier == "quick" else 1500)
    rep.cov["exhaustive"] = bool(complete)
    # (B) histories into the real code
    n = prof["n"][0] if tier == "quick" else prof["n"][1]
    kw = dict(prof["gen"])
    jobs = [(seed, i, kw, prof["lazy"]) for i in range(n)]
    if prop == "C08":
        npairs = n // 3
        traces = common.pool_map(_run_one_fast, jobs[: n - 2 * npairs])
        for pr in common.pool_map(_run_pair, [(seed, 50000 + i, kw, prof["lazy"]) for i in range(npairs)]):
            traces.extend(pr)
        rep.extra["variant_pairs"] = npairs
    else:
        traces = common.pool_map(_run_one_fast, jobs)
    setup_fail = [t for t in traces if "setup_exc" in t]
    traces = [t for t in traces if "setup_exc" not in t]
    if setup_fail:
        rep.machinery_errors.append("%d scenarios could not be set up: %s" % (len(setup_fail), setup_fail[0]["setup_exc"]))
    # (C) the judge
    slim = [{"tid": t["tid"], "C": t["C"], "events": t["events"]} for t in traces]
    try:
        verdicts, st = common.validate_parallel("Trace_BtAbs", slim)
    except tlcrun.TlcError as e:
        rep.machinery_errors.append(str(e)[:1500])
        return rep.finish(known_db)
    rep.add_tlc(st["generated"], st["distinct"], key="validation:Trace_BtAbs", seconds=round(st["seconds"], 1), batches=st["batches"])
    rep.cov["traces_validated_against_impl"] = len(verdicts)
    rep.extra["events_validated"] = sum(len(t["events"]) for t in traces)
    rep.extra["clause_skips"] = sum(len(x) for x in st["skips"].values())
    classify(rep, prop, traces, verdicts, known_db)
    rep.cov["samples"] = [common.shorten_trace(t) for t in traces[:2]]
    # spec -> code: behaviours generated by TLC's simulation of MC_BtAbs replayed step by step
    SIM = {"C01": ("N1fix", 2), "C02": ("F2fix", 2), "C07": ("N1fix", 1), "C08": ("F2unit", 1), "C17": ("FIfix", 1), "C16": ("N1zero", 2)}
    if prop in SIM:
        import simreplay

        which, sl = SIM[prop]
        cfgv, beh, out, secs, ok = simreplay.simulate(which, 4, 3, sl, 40 if tier == "quick" else 600, 14, seed + 11)
        if not ok or cfgv is None:
            rep.machinery_errors.append("TLC simulation of MC_BtAbs %s failed: %s" % (which, out[-600:]))
        else:
            Cs = simreplay.C_from_tla(cfgv)
            strs, drift = [], 0
            for i, b in enumerate(beh):
                t, m = simreplay.replay(Cs, b, 900000 + i)
                strs.append(t)
                drift += 1 if [x for x in m if x[0] != "raised"] else 0
            try:
                sv, sst = common.validate_parallel("Trace_BtAbs", [{"tid": t["tid"], "C": t["C"], "events": t["events"]} for t in strs])
                rep.add_tlc(sst["generated"] + tlcrun.stats(out)[0], sst["distinct"] + tlcrun.stats(out)[1], key="simulate+validate:MC_BtAbs->code", config=which, behaviours=len(beh), seconds=round(secs + sst["seconds"], 1))
                rep.cov["traces_validated_against_impl"] += len(sv)
                for t in strs:
                    t["lazy"] = False
                classify(rep, prop, strs, sv, known_db)
                rep.extra["tlc_behaviours_replayed"] = len(beh)
                rep.extra["model_drift_behaviours"] = drift  # MaxQ-driven model state != real tree while the judge accepts: informational
            except tlcrun.TlcError as e:
                rep.machinery_errors.append(str(e)[:1500])
    # backtest-level stage: the same judge on programs run by the real Backtest
    BT = {"C16": ("bankrupt", (80, 1500)), "C03": ("flows", (60, 1200)), "C01": (["flat", "nested"], (40, 800)),
          "C02": (["flat", "nested", "flows"], (40, 800)), "C07": (["flat", "nested"], (40, 800)), "C08": (["flat", "nested"], (40, 800)),
          "C17": ("fi", (60, 1200))}
    if prop in BT:
        import check_bt

        fam, (nq, nt) = BT[prop]
        check_bt.stage(rep, prop, fam, nq if tier == "quick" else nt, known_db)
    # the lazy update machinery: design-level refinement check and conformance of the
    # live objects' private state with the implementation-shaped model
    if prop == "C08":
        import implconf

        for which, mo, mt, sl in IMPL_MC["quick" if tier == "quick" else "thorough"]:
            complete &= run_mc_impl(rep, which, mo, mt, sl, timeout=300 if tier == "quick" else 1200)
        rep.cov["exhaustive"] = bool(complete)
        try:
            _, iv = implconf.stage(rep, 200 if tier == "quick" else 3000, seed)
            _, iv2 = implconf.stage_bt(rep, 40 if tier == "quick" else 600, seed)
            nd = sum(1 for x in list(iv.values()) + list(iv2.values()) if x["verdict"] == "DRIFT")
            if nd:
                print("NOTE: property=C08 the private state of %d recorded executions differs from the implementation-shaped model BtImpl "
                      "(design-level results of MC_BtImpl no longer transfer to this code; see evidence impl_conformance)" % nd)
        except tlcrun.TlcError as e:
            rep.machinery_errors.append(str(e)[:1500])
    # the repository's own tests, run under the recorder, as a further source of traces
    if prop in REPOTESTS and (tier != "quick" or prop in REPOTESTS_QUICK) and os.environ.get("BT_VERIF_BUILD", "") != "compiled":
        import repotests

        repotests.stage(rep, prop, known_db, classify, maxn=24 if tier == "quick" else 400)
    rep.extra["sources"] = __import__("btload").source_info()
    rep.extra["trees"] = sorted(set(t["C"].get("tree") for t in traces))
    rep.assumptions = [
        "scenario lattice: integer ticks, small rational weights; floats decoded to the unique nearby rational (DESIGN.md section 5)",
        "deferred (update=False) batches start from a settled tree, as Rebalance does",
        "interpreted build of bt/core.py loaded from the working tree",
    ]
    return rep.finish(known_db)


def do_replay(prop, path):
    with open(path) as fh:
        p = json.load(fh)
    if p.get("kind") == "bt":
        import check_bt

        return check_bt.do_replay(prop, path)
    if p.get("base_ops"):
        # a C08 pair: the base history and the same history with redundant refreshes
        b, v_ = treedrv.run_variant_fixed(p["C"], p["base_ops"], p["ops"], tid=1, lazy=p.get("lazy", False))
        os.environ["TRACE_DEBUG"] = "1"
        vd, st, out = tlcrun.validate_batch("Trace_BtAbs", [{"tid": t["tid"], "C": t["C"], "events": t["events"]} for t in (b, v_)])
        bad = False
        for tid, x in sorted(vd.items()):
            print(json.dumps(x))
            bad |= x["verdict"] == "FAIL" and any(common.clause_prop(c) == prop for c in x["clauses"])
        if bad:
            print("VIOLATION property=%s replay=%s" % (prop, path))
        return 1 if bad else 0
    if isinstance(p.get("ops"), dict) and "repotest" in p["ops"]:
        import repotests

        doc = repotests.collect(only=p["ops"]["repotest"])
        trs = [t for t in doc["traces"] if t["label"] == p["ops"]["label"]]
        if not trs:
            print("nothing recorded for %s" % p["ops"])
            return 2
        os.environ["TRACE_DEBUG"] = "1"
        v, st, out = tlcrun.validate_batch("Trace_BtAbs", [{"tid": 1, "C": trs[0]["C"], "events": trs[0]["events"]}])
        print(json.dumps(v[1], indent=1))
        bad = v[1]["verdict"] == "FAIL" and any(common.clause_prop(c) == prop for c in v[1]["clauses"])
        if bad:
            print("VIOLATION property=%s replay=%s" % (prop, path))
        return 1 if bad else 0
    tr = treedrv.run_scenario({"C": p["C"], "ops": p["ops"]}, tid=1, lazy=p.get("lazy", False))
    os.environ["TRACE_DEBUG"] = "1"
    v, st, out = tlcrun.validate_batch("Trace_BtAbs", [{"tid": 1, "C": tr["C"], "events": tr["events"]}])
    print(json.dumps(v[1], indent=1))
    for x in tlcrun._parse_tuple_lines(out, "D"):
        print(json.dumps(x[3]))
    bad = v[1]["verdict"] == "FAIL" and any(common.clause_prop(c) == prop for c in v[1]["clauses"])
    if bad:
        print("VIOLATION property=%s replay=%s" % (prop, path))
    return 1 if bad else 0
