"""C20: risk aggregation, hedging, close and roll.  Scenario programs are run
by the real Backtest with the stock algos (UpdateRisk, HedgeRisks,
ClosePositionsAfterDates, RollPositionsAfterDates, SelectActive) plus two
user-level helper algos (scheduled trades; an end-of-stack snapshot); TLC
(BtRisk / Trace_BtRisk) recomputes risk per node from unit-risk tables,
positions and multipliers, checks the hedge post-condition and the close /
roll bookkeeping on every date."""
import json
import random
from fractions import Fraction

import common
import tlcrun
from num import NAN, Decoder
from treedrv import bt, np, pd

core, A = bt.core, bt.algos
DEC = Decoder(100000)


def dv(x):
    try:
        return DEC(float(x))
    except Exception:  # noqa: BLE001
        return NAN


class Trades(core.Algo):
    """scheduled explicit trades: {date index: [(strategy path below root, security, q)]}"""

    def __init__(self, schedule, dates):
        super().__init__()
        self.schedule, self.dates = schedule, dates
        self.run_always = True

    def __call__(self, target):
        i = int(self.dates.get_loc(target.now))
        for path, sec, q in self.schedule.get(i, []):
            node = target
            for nm in path:
                node = node[nm]
            node.transact(float(q), sec)
        return True


class Snap(core.Algo):
    LOG = []

    def __init__(self, measures):
        super().__init__()
        self.measures = measures
        self.run_always = True

    def __call__(self, target):
        root = target.root
        rec = {"now": target.now, "nodes": {}, "closed": sorted(target.perm.get("closed", set())), "rolled": sorted(target.perm.get("rolled", set())),
               "selected": list(target.temp.get("selected", []))}
        for m in root.members:
            d = {"pos": float(m.position) if isinstance(m, core.SecurityBase) else 0.0, "risk": {}, "hist": {}}
            for ms in self.measures:
                r = getattr(m, "risk", {}).get(ms, float("nan")) if hasattr(m, "risk") else float("nan")
                d["risk"][ms] = r
                h = float("nan")
                if hasattr(m, "risks") and ms in getattr(m, "risks").columns:
                    try:
                        h = float(m.risks.loc[root.now, ms])
                    except Exception:  # noqa: BLE001
                        h = float("nan")
                d["hist"][ms] = h
            rec["nodes"][m.full_name] = d
        Snap.LOG.append(rec)
        return True


def tree_of(shape, mults):
    """shape: 'flat4' r{a,b,c,d} | 'nested' r{k{a,b},c}"""
    if shape == "nested":
        names = ["r", "k", "a", "b", "c"]
        kind = ["strat", "strat", "sec", "sec", "sec"]
        par = [1, 1, 2, 2, 1]
    else:
        names = ["r", "a", "b", "c", "d"]
        kind = ["strat", "sec", "sec", "sec", "sec"]
        par = [1, 1, 1, 1, 1]
    N = len(names)
    kids = [[] for _ in range(N)]
    for i in range(1, N):
        kids[par[i] - 1].append(i + 1)
    return {"names": names, "kind": kind, "par": par, "kids": kids, "mult": [1 if kind[i] == "strat" else mults[i] for i in range(N)]}


def build(tr_, stack_fn):
    names, kind, par, mult = tr_["names"], tr_["kind"], tr_["par"], tr_["mult"]

    def mk(i):
        if kind[i] == "sec":
            return core.Security(names[i], multiplier=mult[i])
        ch = [mk(j) for j in range(len(names)) if par[j] == i + 1 and j != i]
        return bt.Strategy(names[i], algos=stack_fn(i), children=ch)

    return mk(0)


def full_names(tr_):
    out = []
    for i in range(len(tr_["names"])):
        p, j = [], i
        while True:
            p.append(tr_["names"][j])
            if j == 0:
                break
            j = tr_["par"][j] - 1
        out.append(">".join(reversed(p)))
    return out


def run_case(case):
    what = case["what"]
    T = case["T"]
    dates = pd.date_range("2020-01-01", periods=T, freq="D")
    t = tree_of(case["shape"], case["mults"])
    N = len(t["names"])
    secs = [t["names"][i] for i in range(N) if t["kind"][i] == "sec"]
    data = pd.DataFrame({s: [100.0] * T for s in secs}, index=dates)
    measures = case["measures"]
    ur = {}
    for m in measures:
        cols = case["urcols"][m]
        ur[m] = pd.DataFrame({s: [float(v) for v in case["ur"][m][s]] for s in cols}, index=dates)
    extra = {"unit_risk": ur}
    Snap.LOG = []
    holder = {}

    def stack(i):
        if i != 0:
            return []
        st = [Trades({k: v for k, v in case["trades"].items()}, holder["full"])]
        if what == "agg":
            st += [A.UpdateRisk(m, history=case["history"]) for m in measures]
        elif what == "hedge":
            st += [A.UpdateRisk(m) for m in measures]
            st += [A.SelectThese(case["inst"], include_no_data=True), A.HedgeRisks(measures, pseudo=case["pseudo"])]
            st += [A.UpdateRisk(m) for m in measures]
        else:
            st += [A.ClosePositionsAfterDates("cd"), A.RollPositionsAfterDates("rd"), A.SelectAll(), A.SelectActive()]
        st.append(Snap(measures))
        return st

    holder["full"] = pd.DatetimeIndex([dates[0] - pd.DateOffset(days=1)]).append(dates)
    if what == "closeroll":
        full = holder["full"]
        extra["cd"] = pd.DataFrame({"date": pd.to_datetime([full[i] if i < len(full) else full[-1] + pd.DateOffset(days=30) for i in case["cdates"].values()])}, index=list(case["cdates"].keys()))
        extra["rd"] = pd.DataFrame({"date": pd.to_datetime([full[v["date"]] if v["date"] < len(full) else full[-1] + pd.DateOffset(days=30) for v in case["rolls"].values()]),
                                    "target": [v["target"] for v in case["rolls"].values()], "factor": [float(Fraction(v["factor"])) for v in case["rolls"].values()]},
                                   index=list(case["rolls"].keys()))
    strat = build(t, stack)
    exc = "none"
    try:
        b = bt.Backtest(strat, data, integer_positions=False, additional_data=extra)
        b.run()
    except Exception as e:  # noqa: BLE001
        exc = type(e).__name__ + ":" + str(e)[:80]
    fn = full_names(t)
    full = holder["full"]
    TT = len(full)
    idx_of = {n: i + 1 for i, n in enumerate(t["names"])}
    M = len(measures)
    log = {int(full.get_loc(r["now"])): r for r in Snap.LOG}
    Z = [0, 1]
    tr = {"what": what, "N": N, "T": TT, "M": M, "kind": t["kind"], "par": t["par"], "kids": t["kids"], "mult": [[int(x), 1] for x in t["mult"]], "exc": exc,
          "history": case.get("history", 0), "ran": [(d in log) for d in range(TT)], "live": [[True] * N for _ in range(TT)],
          "pos": [], "risk": [], "hist": [], "closed": [], "rolled": [], "selected": [],
          "ur": [[[(dv(case["ur"][m][t["names"][n]][d - 1]) if (d >= 1 and t["names"][n] in case["urcols"][m]) else NAN) for n in range(N)] for d in range(TT)] for m in measures]}
    for d in range(TT):
        r = log.get(d)
        if r is None:
            tr["pos"].append([Z] * N)
            tr["risk"].append([[NAN] * M for _ in range(N)])
            tr["hist"].append([[NAN] * M for _ in range(N)])
            tr["closed"].append([])
            tr["rolled"].append([])
            tr["selected"].append([])
            continue
        tr["pos"].append([dv(r["nodes"].get(fn[n], {"pos": 0.0})["pos"]) for n in range(N)])
        tr["risk"].append([[dv(r["nodes"].get(fn[n], {"risk": {}})["risk"].get(m, float("nan"))) for m in measures] for n in range(N)])
        tr["hist"].append([[dv(r["nodes"].get(fn[n], {"hist": {}})["hist"].get(m, float("nan"))) for m in measures] for n in range(N)])
        tr["closed"].append([idx_of[x] for x in r["closed"]])
        tr["rolled"].append([idx_of[x] for x in r["rolled"]])
        tr["selected"].append([idx_of[x] for x in r["selected"] if x in idx_of])
    if what == "hedge":
        tr["hedged"] = list(tr["ran"])
        tr["inst"] = [idx_of[s] for s in case["inst"]]
        tr["square"] = len(case["inst"]) >= M
        tr["scale"] = [case["scale"], 1]
    if what == "closeroll":
        first_run = 1
        tr["cd"] = [0] * N
        tr["rd"] = [0] * N
        tr["rt"] = [0] * N
        tr["rf"] = [Z] * N
        tr["rolledat"] = [0] * N
        tr["posbefore"] = [Z] * N
        own = [[Fraction(0)] * N for _ in range(TT)]
        cum = [Fraction(0)] * N
        for d in range(TT):
            for path, sec, q in case["trades"].get(d, []):
                cum[idx_of[sec] - 1] += Fraction(q)
            own[d] = list(cum)
        tr["own"] = [[[x.numerator, x.denominator] for x in row] for row in own]
        for s, i in case["cdates"].items():
            tr["cd"][idx_of[s] - 1] = min(max(i, first_run), TT + 5) + 1 if i <= TT else 0
        for s, v in case["rolls"].items():
            n = idx_of[s] - 1
            if v["date"] <= TT - 1:
                at = max(v["date"], first_run)
                tr["rd"][n] = at + 1
                tr["rolledat"][n] = at + 1
                tr["rt"][n] = idx_of[v["target"]]
                f = Fraction(v["factor"])
                tr["rf"][n] = [f.numerator, f.denominator]
                pb = own[at][n]
                tr["posbefore"][n] = [pb.numerator, pb.denominator]
        # cd: 1-based date index from which closed (0 never); dates beyond the data never close
        for n in range(N):
            if tr["cd"][n] > TT:
                tr["cd"][n] = 0
    return tr


def gen_case(rng, what):
    T = 6
    c = {"what": what, "T": T}
    if what == "agg":
        c["shape"] = rng.choice(["nested", "flat4"])
        t = tree_of(c["shape"], [1] * 5)
        secs = [t["names"][i] for i in range(5) if t["kind"][i] == "sec"]
        c["mults"] = [rng.choice([1, 1, 2, 5]) for _ in range(5)]
        c["measures"] = ["m1", "m2"][: rng.choice([1, 2])]
        c["history"] = rng.choice([0, 1, 2, 3])
        c["urcols"] = {m: [s for s in secs if rng.random() < 0.8] for m in c["measures"]}
        c["ur"] = {m: {s: [rng.choice([0, 1, 2, -1, 3]) for _ in range(T)] for s in secs} for m in c["measures"]}
        tr = {}
        for d in range(1, T + 1):
            ev = []
            for s in secs:
                if rng.random() < 0.35:
                    path = ["k"] if (c["shape"] == "nested" and s in ("a", "b")) else []
                    ev.append((path, s, rng.choice([10, -5, 20, 3, -10])))
            tr[d] = ev
        c["trades"] = tr
    elif what == "hedge":
        c["shape"] = "flat4"
        secs = ["a", "b", "c", "d"]
        M = rng.choice([1, 2])
        c["measures"] = ["m1", "m2"][:M]
        ninst = rng.choice([M, M, M, 1, 2])
        c["inst"] = ["c", "d"][:ninst]
        c["pseudo"] = (ninst != M) or rng.random() < 0.3
        mult_ne1 = rng.random() < 0.2
        c["mults"] = [1, 1, 1, rng.choice([2, 5]) if mult_ne1 else 1, rng.choice([2, 5]) if (mult_ne1 and rng.random() < 0.5) else 1]
        # Jacobian of the instruments with a small non-zero determinant
        while True:
            J = {s: [rng.choice([1, 2, -1, 3, 0]) for _ in range(M)] for s in c["inst"]}
            if ninst == 2 and M == 2:
                det = J["c"][0] * J["d"][1] - J["c"][1] * J["d"][0]
                if det == 0:
                    continue
            if ninst == 1 and all(v == 0 for v in J["c"]):
                continue
            if ninst == 2 and M == 1 and J["c"][0] == 0 and J["d"][0] == 0:
                continue
            break
        c["urcols"] = {m: secs for m in c["measures"]}
        c["ur"] = {m: {s: [(J[s][mi] if s in J else rng.choice([1, 2, 3])) for _ in range(T)] for s in secs} for mi, m in enumerate(c["measures"])}
        c["trades"] = {1: [([], "a", rng.choice([100, 50, -40])), ([], "b", rng.choice([30, -20, 80]))], 3: [([], "a", rng.choice([10, -10]))]}
        c["scale"] = 1000
    else:
        c["shape"] = "flat4"
        secs = ["a", "b", "c", "d"]
        c["mults"] = [1] * 5
        c["measures"] = []
        c["urcols"], c["ur"] = {}, {}
        sources = rng.sample(secs, rng.randint(0, 2))
        closers = [s for s in secs if s not in sources and rng.random() < 0.5]
        targets = [s for s in secs if s not in sources and s not in closers]
        c["cdates"] = {s: rng.choice([0, 1, 2, 3, 4, 5, 9]) for s in closers}
        # (a target may itself roll, on the same date or another: chains A -> B -> X, swaps A <-> B)
        c["rolls"] = {s: {"date": rng.choice([0, 2, 3, 3, 4, 9]), "target": rng.choice(targets + [x for x in sources if x != s]), "factor": rng.choice(["1", "2", "1/2", "3/2"])} for s in sources} if targets else {}
        if not targets:
            sources = []
        tr = {}
        for d in range(1, T + 1):
            ev = []
            for s in secs:
                limit = 99
                if s in c["cdates"]:
                    limit = c["cdates"][s]
                if s in c["rolls"]:
                    limit = c["rolls"][s]["date"]
                if d < limit and rng.random() < 0.4:
                    ev.append(([], s, rng.choice([10, 20, -10, 5])))
            tr[d] = ev
        c["trades"] = tr
    return c


def run(prop, tier, replay=None):
    known_db = common.load_known()
    rep = common.Report(prop, tier)
    rng = random.Random(common.seed())
    n = 450 if tier == "quick" else 12000
    kinds = ["agg", "hedge", "closeroll"]
    cases = [gen_case(rng, kinds[i % 3]) for i in range(n)]
    if replay:
        c = json.load(open(replay))["case"]
        if isinstance(c.get("trades"), dict):  # keys were written as strings
            c["trades"] = {(int(k) if str(k).lstrip("-").isdigit() else k): v for k, v in c["trades"].items()}
        cases = [c]
    traces = common.pool_map(run_case, cases, chunksize=8)
    for i, t in enumerate(traces):
        t["tid"] = i + 1
        for k, v in (("hedged", []), ("inst", []), ("square", True), ("scale", [1, 1]), ("cd", []), ("rd", []), ("rt", []), ("rf", []), ("rolledat", []), ("posbefore", []), ("own", [])):
            t.setdefault(k, v)
    try:
        verdicts, st = common.validate_parallel("Trace_BtRisk", traces, batch=150)
    except tlcrun.TlcError as e:
        rep.machinery_errors.append(str(e)[:1500])
        return rep.finish(known_db)
    rep.add_tlc(st["generated"], st["distinct"], key="validation:Trace_BtRisk", seconds=round(st["seconds"], 1), batches=st["batches"])
    rep.cov["traces_validated_against_impl"] = len(verdicts)
    counts, per = {}, {}
    seen = set()
    for tid, v in sorted(verdicts.items()):
        counts[v["verdict"]] = counts.get(v["verdict"], 0) + 1
        w = cases[tid - 1]["what"]
        per[w] = per.get(w, 0) + 1
        if v["verdict"] == "KNOWN" and known_db.get(v["kf"], {}).get("status") == "open":
            rep.known[v["kf"]] = rep.known.get(v["kf"], 0) + 1
        elif v["verdict"] in ("FAIL", "KNOWN"):
            sig = (w, tuple(sorted(set(c.split("[")[0] for c in v["clauses"]))))
            if sig in seen and len(rep.violations) >= 6:
                continue
            seen.add(sig)
            rep.violation(sig, {"kind": "risk", "case": {k: (v_ if k != "trades" else {str(a): b for a, b in v_.items()}) for k, v_ in cases[tid - 1].items()}, "verdict": v, "exc": traces[tid - 1]["exc"]}, "%s case %d: %s %s" % (w, tid, ", ".join(v["clauses"][:5]), traces[tid - 1]["exc"]))
    rep.extra["verdicts"] = counts
    rep.extra["cases_per_kind"] = per
    rep.cov["states"] = max(rep.cov["states"], 1)
    rep.cov["transitions"] = max(rep.cov["transitions"], 1)
    rep.cov["samples"] = [{k: traces[i][k] for k in ("what", "kind", "mult", "pos", "risk")} for i in (0,)]
    rep.extra["sources"] = __import__("btload").source_info()
    rep.assumptions = ["trees r{a,b,c,d} and r{k{a,b},c}, 6 dates, 1-2 measures, unit risks in small integers, multipliers in {1,2,5}", "hedge instruments with a non-singular (or full-rank) Jacobian; tolerance 1e-6 relative"]
    return rep.finish(known_db)
