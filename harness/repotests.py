"""The repository's own tests run under the recorder: every tree a test sets up
(through the public `setup`) is recorded - one event per outermost tree-API call,
observation on a deep copy - and the traces are validated by TLC against the
abstract ledger (Trace_BtAbs), which evaluates every clause at every step.  The
tests' own assertions sample a few numbers after a fixed script; the judge
evaluates the properties after *every* call they make.

Run as:  python repotests.py <out.json>   (executes pytest in-process on
/repo/tests with this module as a plugin, interpreted build of the working tree).
"""
import json
import os
import sys

HERE = os.path.dirname(os.path.abspath(__file__))
sys.path.insert(0, HERE)

import btdrv  # noqa: E402  (installs the wrappers)
import treedrv  # noqa: E402
from num import NAN, Decoder  # noqa: E402
from treedrv import bt, np, pd  # noqa: E402

core = bt.core
Z = [0, 1]
KINDS = [(core.CouponPayingHedgeSecurity, "cphedge"), (core.CouponPayingSecurity, "cpsec"), (core.HedgeSecurity, "hedge"),
         (core.FixedIncomeSecurity, "fisec"), (core.SecurityBase, "sec")]
TRACES = []
MAXEV = 300
SKIPPED = {}


def _skip(why):
    SKIPPED[why] = SKIPPED.get(why, 0) + 1


def probe_comm(fn):
    """Classify a commission function into the specification's family by probing."""
    try:
        pts = [(1, 10.0), (10, 10.0), (100, 10.0), (10, 100.0), (-10, 10.0)]
        v = [float(fn(q, p)) for q, p in pts]
    except Exception:  # noqa: BLE001
        return None
    d = Decoder(10000)
    if all(x == 0 for x in v):
        return {"k": "zero", "a": Z, "b": Z}
    if len(set(v)) == 1:
        return {"k": "fix", "a": d(v[0]), "b": Z}
    if v[1] == 10 * v[0] and v[2] == 100 * v[0] and v[3] == v[1] and v[4] == v[1]:
        return {"k": "unit", "a": d(v[0]), "b": Z}
    if v[1] == 10 * v[0] and v[3] == 10 * v[1] and v[4] == v[1]:
        return {"k": "prop", "a": d(v[0] / 10.0), "b": Z}
    if v[0] == v[1] and v[2] > v[1] and v[3] == v[1] and v[4] == v[1]:  # max(a, b*|q|)
        return {"k": "tier", "a": d(v[0]), "b": d(v[2] / 100.0)}
    return None


def header_from_live(root, universe, kwargs):
    """Configuration C of a tree that has just been set up."""
    dec = Decoder(100000)
    names, kinds, par, mult, fi, comm = [], [], [], [], [], []
    cols = list(universe.columns)

    def add(node, parent_idx, kind, m):
        names.append(node if isinstance(node, str) else node.name)
        kinds.append(kind)
        par.append(parent_idx + 1 if parent_idx is not None else 1)
        mult.append(dec(m))
        return len(names) - 1

    def walk(s, parent_idx):
        i = add(s, parent_idx, "strat", 1.0)
        fi.append(bool(s.fixed_income))
        c = probe_comm(s.commission_fn)
        comm.append(c)
        seen = set()
        for ch in s._childrenv:
            if isinstance(ch, core.StrategyBase):
                walk(ch, i)
            else:
                k = next(kk for cls, kk in KINDS if isinstance(ch, cls))
                add(ch, i, k, ch.multiplier)
                fi.append(bool(ch.fixed_income))
                comm.append({"k": "zero", "a": Z, "b": Z})
            seen.add(ch.name)
        lazies = dict(getattr(s, "_lazy_children", {}))
        extra = [c_ for c_ in (cols if not s._original_children_are_present else []) if c_ not in seen and c_ not in lazies]
        for nm, ch in list(lazies.items()) + [(c_, None) for c_ in extra]:
            if nm in seen:
                continue
            k = "sec" if ch is None else next(kk for cls, kk in KINDS if isinstance(ch, cls))
            add(nm, i, k, 1.0 if ch is None else ch.multiplier)
            fi.append(bool(getattr(ch, "fixed_income", False)))
            comm.append({"k": "zero", "a": Z, "b": Z})
            seen.add(nm)

    walk(root, None)
    N = len(names)
    if any(c is None for c in comm):
        return None, "commission function outside the modelled family"
    T = len(universe.index)
    kids = [[] for _ in range(N)]
    for i in range(1, N):
        kids[par[i] - 1].append(i + 1)

    def tab(frame, default):
        out = []
        for i in range(N):
            if kinds[i] == "strat":
                out.append([])
            elif frame is not None and names[i] in getattr(frame, "columns", []):
                out.append([NAN if pd.isna(v) else dec(float(v)) for v in frame[names[i]].values])
            else:
                out.append([default] * T)
        return out

    C = {"tree": "repo-test", "N": N, "kind": kinds, "par": par, "kids": kids, "names": names, "mult": mult, "fi": fi, "T": T,
         "px": tab(universe, NAN), "spread": tab(kwargs.get("bidoffer"), Z), "coupon": tab(kwargs.get("coupons"), Z),
         "costl": tab(kwargs.get("cost_long"), NAN), "costs": tab(kwargs.get("cost_short"), NAN), "comm": comm,
         "integer": bool(root.integer_positions), "bidoffer": "bidoffer" in kwargs, "D": 100000, "DW": 200000, "paper": False}
    return C, None


class Plugin:
    def __init__(self):
        self.sess = None
        self.current = None

    def pytest_runtest_setup(self, item):
        self.current = item.nodeid
        sess = btdrv.Session({"T": 0, "cols": [], "px": {}, "bt": {}, "tree": {"name": "x"}})
        sess.test = item.nodeid
        sess.expect_main = False
        sess.main = None
        btdrv.SESSION = sess
        self.sess = sess
        del treedrv.TRADELOG[:]

    def pytest_runtest_teardown(self, item):
        sess = self.sess
        btdrv.SESSION = None
        if sess is None:
            return
        for lg in sess.order:
            evs = lg.rec.events
            # outside the modelled protocol: capital conjured inside a sub-strategy, or a
            # sub-strategy's clock moved without its root (the prefix before it is judged)
            for i, e in enumerate(evs):
                if e["op"] in ("adjust", "update") and e.get("node", 1) != 1:
                    _skip("truncated: direct %s on a sub-strategy" % e["op"])
                    evs = evs[:i]
                    break
            if len(evs) > MAXEV:
                _skip("truncated: first %d events of a longer run" % MAXEV)
                evs = evs[:MAXEV]
            if evs:
                TRACES.append({"test": item.nodeid, "label": lg.label, "C": lg.rec.C, "events": evs})
        self.sess = None


def install_generic_setup():
    """Register any root that is set up while a test runs."""
    orig = core.StrategyBase.setup
    inner = getattr(orig, "_generic", False)
    if inner:
        return

    def setup(self, universe, **kwargs):
        sess = btdrv.SESSION
        depth = getattr(sess, "setup_depth2", 0) if sess is not None else 0
        if sess is not None:
            sess.setup_depth2 = depth + 1
        try:
            r = orig(self, universe, **kwargs)
        finally:
            if sess is not None:
                sess.setup_depth2 -= 1
        if sess is not None and sess.setup_depth2 == 0 and self.parent is self and id(self) in sess.logs and hasattr(sess, "test"):
            sess.logs[id(self)].dead = True  # set up again: the configuration changed under the trace
            _skip("truncated: root set up a second time")
        if sess is not None and sess.setup_depth2 == 0 and self.parent is self and id(self) not in sess.logs and hasattr(sess, "test"):
            try:
                C, why = header_from_live(self, universe, kwargs)
                if C is not None and any((not core.is_zero(getattr(m, "_position", 0.0))) or (m is not self and not core.is_zero(getattr(m, "_capital", 0.0))) for m in self.members):
                    C, why = None, "tree re-used with positions / sub-strategy capital from an earlier run"
            except Exception as e:  # noqa: BLE001
                C, why = None, "header: %s" % type(e).__name__
            if C is None:
                _skip(why)
            else:
                sess.dts = universe.index
                lg = sess.register(self, C, "root:%s" % self.name)
                # a capital adjustment made before setup is not seen: start from what is there
                if self._capital != 0:
                    saved = list(treedrv.TRADELOG)
                    lg.rec.finish_event({"op": "adjust", "node": 1, "a": lg.rec.dec(float(self._capital)), "flow": True, "upd": True}, "none", trades=[])
                    treedrv.TRADELOG[:] = saved
        return r

    setup._generic = True
    setup._btverif = True
    core.StrategyBase.setup = setup


def install_config_guard():
    """A commission function replaced after setup changes the configuration the
    trace was opened with: recording of that tree stops there."""
    orig = core.StrategyBase.set_commissions
    if getattr(orig, "_generic", False):
        return

    def set_commissions(self, fn):
        sess = btdrv.SESSION
        lg = None if sess is None else sess.logs.get(id(self.root))
        if lg is not None and not lg.dead:
            lg.dead = True
            _skip("truncated: commission function replaced after setup")
        return orig(self, fn)

    set_commissions._generic = True
    core.StrategyBase.set_commissions = set_commissions


def main(out_path, only=None):
    import pytest

    install_generic_setup()
    install_config_guard()
    repo = os.environ.get("BT_VERIF_REPO", "/repo")
    plug = Plugin()
    if only:
        rc = pytest.main(["-q", "-p", "no:cacheprovider", os.path.join(repo, only), "--rootdir", repo, "-o", "addopts=", "--timeout=120"], plugins=[plug])
        with open(out_path, "w") as fh:
            json.dump({"pytest_rc": int(rc), "traces": TRACES, "skipped": SKIPPED}, fh)
        return 0
    # deselected: a test that counts calls of StrategyBase.update through a mock (the
    # recorder's observations on clones would be counted), and one on 30-minute data
    # with thousands of bars (nothing of it would be recorded)
    rc = pytest.main(["-q", "-p", "no:cacheprovider", os.path.join(repo, "tests", "test_core.py"), os.path.join(repo, "tests", "test_algos.py"),
                      os.path.join(repo, "tests", "test_backtest.py"), "--rootdir", repo, "-o", "addopts=",
                      "--timeout=120", "-k", "not test_rebalance_updatecount and not test_30_min_data"], plugins=[plug])
    with open(out_path, "w") as fh:
        json.dump({"pytest_rc": int(rc), "traces": TRACES, "skipped": SKIPPED}, fh)
    return 0


def collect(only=None, timeout=1500):
    """Run this module in a fresh interpreter; returns its JSON document."""
    import shutil
    import subprocess
    import tempfile

    d = tempfile.mkdtemp(prefix="btverif_repotests_")
    try:
        out = os.path.join(d, "traces.json")
        cmd = [sys.executable, os.path.abspath(__file__), out] + ([only] if only else [])
        p = subprocess.run(cmd, stdout=subprocess.PIPE, stderr=subprocess.STDOUT, text=True, timeout=timeout, cwd=d)
        if not os.path.exists(out):
            raise RuntimeError("repository tests under the recorder produced nothing: " + p.stdout[-800:])
        with open(out) as fh:
            doc = json.load(fh)
        doc["pytest_tail"] = p.stdout.strip().splitlines()[-1] if p.stdout.strip() else ""
        return doc
    finally:
        shutil.rmtree(d, ignore_errors=True)


def stage(rep, prop, known_db, classify, maxn=24):
    """The repository's own tests as a source of implementation traces for `prop`."""
    import common
    import tlcrun

    try:
        doc = collect()
    except Exception as e:  # noqa: BLE001
        rep.machinery_errors.append("repotests: %s" % str(e)[:800])
        return
    trs = doc["traces"]
    big = [t for t in trs if t["C"]["N"] > maxn]
    trs = [t for t in trs if t["C"]["N"] <= maxn]
    trs.sort(key=lambda t: -len(t["events"]) * t["C"]["N"])
    k = max(1, common.NCPU // 2)
    trs = [t for j in range(k) for t in trs[j::k]]  # long traces spread over the JVMs
    for i, t in enumerate(trs):
        t["tid"] = 700000 + i
        t["ops"] = {"repotest": t["test"], "label": t["label"]}
        t["C"]["tree"] = "repo-test:" + t["test"].split("::")[-1]
    try:
        v, st = common.validate_parallel("Trace_BtAbs", [{"tid": t["tid"], "C": t["C"], "events": t["events"]} for t in trs], batch=(len(trs) + k - 1) // k)
    except tlcrun.TlcError as e:
        rep.machinery_errors.append(str(e)[:1500])
        return
    rep.add_tlc(st["generated"], st["distinct"], key="validation:Trace_BtAbs<-repository tests", seconds=round(st["seconds"], 1), traces=len(trs))
    rep.cov["traces_validated_against_impl"] += len(v)
    counts = classify(rep, prop, trs, v, known_db)
    rep.extra["repository_tests"] = {"pytest": doc.get("pytest_tail", ""), "pytest_rc": doc.get("pytest_rc"), "traces": len(trs), "events": sum(len(t["events"]) for t in trs),
                                     "verdicts": counts, "not_recorded": doc.get("skipped", {}),
                                     "left_to_the_thorough_tier_(tree_size)": [t["test"] for t in big]}


if __name__ == "__main__":
    sys.exit(main(sys.argv[1], sys.argv[2] if len(sys.argv) > 2 else None))
