"""C13: algo stack control flow.  (A) MC_BtStack: TLC checks the laws of stack
execution on every small expression; (B) expressions, Require tables,
RunIfOutOfBounds situations and strategy trees with spy algos are executed on
the real classes; (C) TLC (Trace_BtStack) computes Exec / OutOfBounds /
RunOrder and compares call order, returned values, temp and perm handling."""
import itertools
import random
from fractions import Fraction

import common
import tlcrun
from treedrv import bt, pd

core, algos = bt.core, bt.algos


class Leaf(core.Algo):
    def __init__(self, log, id_, ret, ra):
        super().__init__()
        self.log, self.id, self.ret = log, id_, ret
        if ra == "true":
            self.run_always = True
        elif ra == "false":
            self.run_always = False

    def __call__(self, target):
        self.log.append(self.id)
        return self.ret


def build(e, log):
    if e["t"] == "leaf":
        return Leaf(log, e["id"], e["ret"], e["ra"])
    if e["t"] == "stack":
        return core.AlgoStack(*[build(x, log) for x in e["items"]])
    if e["t"] == "or":
        return algos.Or([build(x, log) for x in e["items"]])
    if e["t"] == "not":
        return algos.Not(build(e["item"], log))
    raise ValueError(e)


def run_expr(e):
    log = []
    a = build(e, log)
    s = bt.Strategy("s")
    ret = a(s)
    return {"what": "expr", "expr": e, "calls": list(log), "ret": bool(ret)}


def leafs(i):
    return [{"t": "leaf", "id": i, "ret": r, "ra": ra} for r in (True, False) for ra in ("absent", "true", "false")]


def relabel(e, counter):
    """give leaves distinct increasing ids in evaluation order"""
    if e["t"] == "leaf":
        counter[0] += 1
        return dict(e, id=counter[0])
    if e["t"] == "not":
        return {"t": "not", "item": relabel(e["item"], counter)}
    return {"t": e["t"], "items": [relabel(x, counter) for x in e["items"]]}


def gen_exprs(tier, rng):
    out = []
    maxflat = 3 if tier == "quick" else 4
    for n in range(0, maxflat + 1):
        for combo in itertools.product(*[leafs(i + 1) for i in range(n)]):
            out.append({"t": "stack", "items": list(combo)})
    if tier == "quick":
        four = [list(c) for c in itertools.product(*[leafs(i + 1) for i in range(4)])]
        out += [{"t": "stack", "items": c} for c in rng.sample(four, 150)]

    def rand_expr(depth):
        k = rng.random()
        if depth == 0 or k < 0.45:
            return rng.choice(leafs(0))
        if k < 0.65:
            return {"t": "stack", "items": [rand_expr(depth - 1) for _ in range(rng.randint(1, 3))]}
        if k < 0.85:
            return {"t": "or", "items": [rand_expr(depth - 1) for _ in range(rng.randint(1, 3))]}
        return {"t": "not", "item": rand_expr(depth - 1)}

    for _ in range(400 if tier == "quick" else 20000):
        e = {"t": "stack", "items": [rand_expr(2) for _ in range(rng.randint(1, 4))]}
        out.append(relabel(e, [0]))
    return out


# values a temp entry may hold: the predicate decides for every value that is not None
REQ_VALUES = {"list1": lambda: [1], "empty_list": lambda: [], "empty_dict": lambda: {}, "zero": lambda: 0, "zero_float": lambda: 0.0,
              "false": lambda: False, "empty_str": lambda: "", "empty_series": lambda: pd.Series([], dtype=float).tolist()}


def run_require(case):
    present, isnone, pv, ifnone = case[:4]
    val = case[4] if len(case) > 4 else "list1"
    s = bt.Strategy("s")
    seen = []
    if present:
        s.temp["it"] = None if isnone else REQ_VALUES[val]()

    def pred(x):
        seen.append(x)
        return pv

    r = algos.Require(pred, "it", if_none=ifnone)(s)
    return {"what": "expr", "expr": {"t": "require", "present": present, "isnone": isnone, "pv": pv, "ifnone": ifnone}, "calls": [], "ret": bool(r)}


def fr(x, D=100000):
    f = Fraction(x).limit_denominator(D)
    return [f.numerator, f.denominator]


def run_oob(case):
    prices, alloc, targets, tol, cash = case
    dts = pd.date_range("2010-01-04", periods=2)
    data = pd.DataFrame({k: [float(v), float(v)] for k, v in prices.items()}, index=dts)
    s = bt.Strategy("s", children=list(prices))
    s.setup(data)
    s.adjust(1000.0)
    s.update(dts[0])
    for k, a in alloc.items():
        if a:
            s.allocate(float(a), k)
    s.update(dts[0])
    s.temp = {}
    hasw = targets is not None
    if hasw:
        s.temp["weights"] = {k: float(Fraction(*v)) for k, v in targets.items()}
    if cash is not None:
        s.temp["cash"] = cash
    held = []
    if hasw:
        for cname in s.children:
            if cname in targets:
                held.append({"cw": fr(s.children[cname].weight), "w": list(targets[cname])})
    exc, ret = "none", False
    try:
        ret = bool(algos.RunIfOutOfBounds(float(Fraction(*tol)))(s))
    except Exception as e:  # noqa: BLE001
        exc = type(e).__name__
    return {"what": "oob", "hasw": hasw, "held": held, "tol": list(tol), "hascash": cash is not None, "exc": exc, "ret": ret}


def gen_oob(tier, rng):
    cases = []
    W = [(1, 2), (1, 4), (1, 5), (3, 10), (1, 10), (3, 4), (-1, 4)]
    for _ in range(150 if tier == "quick" else 3000):
        prices = {"a": rng.choice([10, 20, 25]), "b": rng.choice([5, 8, 40]), "c": rng.choice([10, 50])}
        alloc = {k: rng.choice([0, 100, 200, 250, 300, 500]) for k in prices}
        if sum(alloc.values()) > 1000:
            alloc["c"] = 0
        names = rng.sample(list(prices), rng.randint(1, 3))
        targets = {k: rng.choice(W) for k in names} if rng.random() < 0.9 else None
        tol = rng.choice([(1, 10), (1, 4), (1, 2), (1, 100), (2, 1)])
        cash = rng.choice([None, None, None, 0.1])
        cases.append((prices, alloc, targets, tol, cash))
    return cases


class RunSpy(core.Algo):
    LOG = []  # class level: children are deep-copied into the tree, the log must be shared

    def __init__(self, log=None):
        super().__init__()

    def __call__(self, target):
        RunSpy.LOG.append(("enter", target.name, len(target.temp) == 0, target.perm.get("runs", 0)))
        target.temp["junk"] = 1
        target.perm["runs"] = target.perm.get("runs", 0) + 1
        return True


def run_tree(case):
    """case: parent list (0-based, -1 root) ; executes 3 runs"""
    par, nruns = case
    log = RunSpy.LOG
    del log[:]
    names = ["n%d" % i for i in range(len(par))]
    kids = [[] for _ in par]
    for i, p in enumerate(par):
        if p >= 0:
            kids[p].append(i)

    def mk(i):
        return bt.Strategy(names[i], algos=[RunSpy(log)], children=[mk(k) for k in kids[i]] or None)

    root = mk(0)
    idx = {n: i + 1 for i, n in enumerate(names)}
    runs = []
    for _ in range(nruns):
        del log[:]
        root.temp["left-over"] = 1
        root.run()
        runs.append({"order": [idx[x[1]] for x in log], "tempempty": [bool(x[2]) for x in log], "perm": [int(x[3]) for x in log]})
    return {"what": "run", "kids": [[k + 1 for k in ks] for ks in kids], "runs": runs}


TREES = [[-1], [-1, 0], [-1, 0, 0], [-1, 0, 1], [-1, 0, 0, 1], [-1, 0, 1, 1, 0], [-1, 0, 0, 0], [-1, 0, 1, 2]]


def _do(job):
    kind, payload = job
    return {"expr": run_expr, "req": run_require, "oob": run_oob, "tree": run_tree}[kind](payload)


def run(prop, tier, replay=None):
    known_db = common.load_known()
    rep = common.Report(prop, tier)
    rng = random.Random(common.seed())
    out, secs = tlcrun.run_tlc("MC_BtStack", cfg="MC_BtStack.cfg", workers=common.NCPU, timeout=900)
    gen, dist = tlcrun.stats(out)
    complete = "Model checking completed. No error has been found" in out
    rep.add_tlc(gen, dist, key="design:MC_BtStack", seconds=round(secs, 1), complete=complete)
    if not complete:
        rep.machinery_errors.append("MC_BtStack did not pass: " + out[-600:])
    rep.cov["exhaustive"] = complete
    jobs = [("expr", e) for e in gen_exprs(tier, rng)]
    jobs += [("req", c + (v,)) for c in itertools.product([True, False], repeat=4) for v in REQ_VALUES]
    jobs += [("oob", c) for c in gen_oob(tier, rng)]
    jobs += [("tree", (t, 3)) for t in TREES]
    if replay:
        import json

        jobs = [tuple(json.load(open(replay))["job"])]
    traces = common.pool_map(_do, jobs, chunksize=32)
    for i, t in enumerate(traces):
        t["tid"] = i + 1
        for k, v in (("expr", {"t": "none"}), ("calls", []), ("ret", False), ("hasw", False), ("held", []), ("tol", [1, 1]), ("hascash", False), ("exc", "none"), ("kids", []), ("runs", [])):
            t.setdefault(k, v)
    try:
        verdicts, st = common.validate_parallel("Trace_BtStack", traces, batch=800)
    except tlcrun.TlcError as e:
        rep.machinery_errors.append(str(e)[:1500])
        return rep.finish(known_db)
    rep.add_tlc(st["generated"], st["distinct"], key="validation:Trace_BtStack", seconds=round(st["seconds"], 1), batches=st["batches"])
    rep.cov["traces_validated_against_impl"] = len(verdicts)
    counts = {}
    seen = set()
    for tid, v in sorted(verdicts.items()):
        counts[v["verdict"]] = counts.get(v["verdict"], 0) + 1
        if v["verdict"] == "KNOWN" and known_db.get(v["kf"], {}).get("status") == "open":
            rep.known[v["kf"]] = rep.known.get(v["kf"], 0) + 1
        elif v["verdict"] in ("FAIL", "KNOWN"):
            sig = (jobs[tid - 1][0], tuple(v["clauses"]))
            if sig in seen and len(rep.violations) >= 5:
                continue
            seen.add(sig)
            rep.violation(sig, {"kind": "stack", "job": list(jobs[tid - 1]), "trace": traces[tid - 1], "verdict": v}, "%s case %d: %s" % (jobs[tid - 1][0], tid, ",".join(v["clauses"])))
    rep.extra["verdicts"] = counts
    rep.extra["cases"] = {k: sum(1 for j in jobs if j[0] == k) for k in ("expr", "req", "oob", "tree")}
    rep.cov["samples"] = [traces[len(traces) // 3], traces[-1]]
    rep.extra["sources"] = __import__("btload").source_info()
    rep.assumptions = ["expressions: every flat stack of <= 3 (quick) / 4 (thorough) leaves with return value x run_always in {absent, True, False}, plus seeded random nestings of Stack / Or / Not up to depth 3",
                       "RunIfOutOfBounds deviation is relative: |weight - target| / |target| > tolerance"]
    return rep.finish(known_db)
