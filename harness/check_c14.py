"""C14: selection algos.  Cases (universe table x date x parameters x prior
temp) are executed on the real algo classes against a real Strategy; TLC
(Trace_BtSelect / BtSelect) computes the documented set - or checks the
predicate for ranked / random selections - and compares."""
import itertools
import math
import random
import re

import common
import tlcrun
from num import NAN, Decoder
from treedrv import bt, np, pd

A = bt.algos
NAMES = ["a", "b", "c", "d"]
EPOCH = pd.Timestamp("2020-01-01")
DEC = Decoder(1000)


def r_(v):
    if v is None or (isinstance(v, float) and math.isnan(v)):
        return NAN
    if isinstance(v, bool):
        return [1, 1] if v else [0, 1]
    if isinstance(v, int):
        return [v, 1]
    return DEC(v)


def gen_universe(rng):
    K = rng.choice([3, 4])
    T = rng.choice([5, 6])
    if rng.random() < 0.5:
        days = list(range(T))
    else:
        days = sorted(rng.sample(range(0, T + 4), T))
    U = []
    late = {x: (rng.randint(1, 3) if rng.random() < 0.3 else 0) for x in range(K)}
    for r in range(T):
        row = []
        for x in range(K):
            if r < late[x] or rng.random() < 0.12:
                row.append(None)
            else:
                row.append(rng.choice([1, 2, 3, 4, 5, 5, 8, 0, -1]))
        U.append(row)
    return K, days, U


def frame(days, rows, names):
    idx = [EPOCH + pd.Timedelta(days=d) for d in days]
    return pd.DataFrame([[float("nan") if v is None else v for v in row] for row in rows], index=idx, columns=names)


def flags(rng):
    return rng.choice([(False, False), (False, False), (False, True), (True, True)])


def gen_case(rng, algo=None):
    K, days, U = gen_universe(rng)
    names = NAMES[:K]
    now = rng.randint(1, len(days))
    algo = algo or rng.choice(ALGOS)
    inc_nd, inc_neg = flags(rng)
    hassel = rng.random() < 0.6
    pre_sel = sorted(rng.sample(range(1, K + 1), rng.randint(0, K))) if hassel else []
    rng.shuffle(pre_sel)
    if algo in ("StatTotalReturn", "SelectMomentum"):
        # a total return over a zero or negative base price is not defined
        U = [[(v if (v is None or v > 0) else rng.choice([1, 2, 6])) for v in row] for row in U]
    case = {"algo": algo, "K": K, "day": days, "U": U, "now": now, "pre": {"hassel": hassel, "sel": pre_sel, "hasstat": False, "stat": [None] * K},
            "p": {"incl_no_data": inc_nd, "incl_neg": inc_neg}, "sdays": [], "stab": []}
    # the strategy's own universe: all tickers (no children declared), or the declared
    # tickers plus one column per declared sub-strategy (ids K+1.., priced at the index 100)
    case["scope"] = list(range(1, K + 1))
    case["nsub"] = 0
    if algo in ("SelectAll", "SelectRandomly") and rng.random() < 0.5:
        case["scope"] = sorted(rng.sample(range(1, K + 1), rng.randint(0, K)))
        case["nsub"] = rng.choice([0, 1, 2]) if case["scope"] else rng.choice([1, 2])
        case["pre"]["hassel"] = False
        case["pre"]["sel"] = []
    p = case["p"]
    if algo == "SelectThese":
        p["tickers"] = rng.sample(range(1, K + 1), rng.randint(1, K))
    elif algo == "SelectHasData":
        p["lookback"] = rng.choice([0, 1, 2, 3, 5])
        p["min_count"] = rng.choice([1, 2, 3])
    elif algo in ("SelectN", "SelectMomentum"):
        p["n"] = rng.choice([[0, 1], [1, 1], [2, 1], [3, 1], [1, 2], [1, 3], [2, 3]])
        p["descending"] = rng.random() < 0.6
        p["all_or_none"] = rng.random() < 0.35
        p["filter_selected"] = rng.random() < 0.4 if algo == "SelectN" else False
        if algo == "SelectN":
            case["pre"]["hasstat"] = True
            case["pre"]["stat"] = [rng.choice([None, 1, 2, 2, 3, 5, -1, 0.5]) for _ in range(K)]
        else:
            p["lookback"] = rng.choice([0, 1, 2, 3])
            p["lag"] = rng.choice([0, 0, 1, 2])
            case["pre"]["hassel"] = True
            case["pre"]["sel"] = pre_sel or [1]
    elif algo == "StatTotalReturn":
        p["lookback"] = rng.choice([0, 1, 2, 3])
        p["lag"] = rng.choice([0, 0, 1, 2, 3])
        case["pre"]["hassel"] = True
        case["pre"]["sel"] = pre_sel or [1]
        if rng.random() < 0.3:
            case["pre"]["hasstat"] = True
            case["pre"]["stat"] = [7] * K
    elif algo in ("SetStat", "SelectWhere"):
        n = rng.randint(1, len(days))
        rows = sorted(rng.sample(range(len(days)), n))
        extra = [d + 100 for d in rng.sample(range(5), rng.randint(0, 2))]
        case["sdays"] = sorted([days[i] for i in rows] + extra)
        if algo == "SetStat":
            case["stab"] = [[rng.choice([None, 1, 2, 3, 5]) for _ in range(K)] for _ in case["sdays"]]
            p["lag"] = rng.choice([0, 0, 1, 2])
            if rng.random() < 0.3:
                case["pre"]["hasstat"] = True
                case["pre"]["stat"] = [7] * K
        else:
            case["stab"] = [[rng.random() < 0.6 for _ in range(K)] for _ in case["sdays"]]
    elif algo == "SelectRandomly":
        p["n"] = rng.choice([-1, 0, 1, 2, 5])
    elif algo == "SelectRegex":
        p["regex"] = rng.choice(["^[ab]", "c$", "[^a]", "."])
        case["pre"]["hassel"] = True
        p["match"] = [bool(re.compile(p["regex"]).search(nm)) for nm in names]
    elif algo == "SelectActive":
        case["pre"]["hassel"] = True
        p["closed"] = rng.sample(range(1, K + 1), rng.randint(0, 2))
        p["rolled"] = rng.sample(range(1, K + 1), rng.randint(0, 1))
        p["hasclosed"] = rng.random() < 0.8
        p["hasrolled"] = rng.random() < 0.5
        if not p["hasclosed"]:
            p["closed"] = []
        if not p["hasrolled"]:
            p["rolled"] = []
    elif algo == "SelectTypes":
        kinds = [rng.choice(["sec", "cp", "strat"]) for _ in range(K)]
        p["kinds"] = kinds
        p["children"] = list(range(1, K + 1))
        p["mode"] = rng.choice(["all", "secbase", "no_cp", "strategies"])
        ok = {"all": lambda k: True, "secbase": lambda k: k in ("sec", "cp"), "no_cp": lambda k: k != "cp", "strategies": lambda k: k == "strat"}[p["mode"]]
        p["kindok"] = [ok(k) for k in kinds]
    elif algo == "ResolveOnTheRun":
        case["pre"]["hassel"] = True
        nal = rng.randint(1, 2)
        sel = rng.sample(range(1, K + 1), rng.randint(0, 2)) + [K + 1 + j for j in range(nal) if rng.random() < 0.8]
        rng.shuffle(sel)
        case["pre"]["sel"] = sel
        p["nal"] = nal
        p["otrtab"] = [[rng.randint(1, K) for _ in range(nal)] for _ in days]
        p["otr"] = p["otrtab"][now - 1]
    return case


ALGOS = ["SelectAll", "SelectThese", "SelectHasData", "SelectN", "StatTotalReturn", "SelectMomentum", "SetStat", "SelectWhere", "SelectRandomly", "SelectRegex", "SelectActive", "SelectTypes", "ResolveOnTheRun"]


def run_case(case):
    K, days, U, now = case["K"], case["day"], case["U"], case["now"]
    names = NAMES[:K]
    p = case["p"]
    algo = case["algo"]
    uni = frame(days, U, names)
    kw = {}
    off = lambda d: pd.DateOffset(days=d)  # noqa: E731
    nd, ng = p["incl_no_data"], p["incl_neg"]
    if algo == "SelectAll":
        a = A.SelectAll(include_no_data=nd, include_negative=ng)
    elif algo == "SelectThese":
        a = A.SelectThese([names[i - 1] for i in p["tickers"]], include_no_data=nd, include_negative=ng)
    elif algo == "SelectHasData":
        a = A.SelectHasData(lookback=off(p["lookback"]), min_count=p["min_count"], include_no_data=nd, include_negative=ng)
    elif algo == "SelectN":
        n = p["n"][0] / p["n"][1]
        a = A.SelectN(n if p["n"][1] != 1 else p["n"][0], sort_descending=p["descending"], all_or_none=p["all_or_none"], filter_selected=p["filter_selected"])
    elif algo == "StatTotalReturn":
        a = A.StatTotalReturn(lookback=off(p["lookback"]), lag=off(p["lag"]))
    elif algo == "SelectMomentum":
        n = p["n"][0] / p["n"][1]
        a = A.SelectMomentum(n if p["n"][1] != 1 else p["n"][0], lookback=off(p["lookback"]), lag=off(p["lag"]), sort_descending=p["descending"], all_or_none=p["all_or_none"])
    elif algo == "SetStat":
        kw["stat"] = frame(case["sdays"], case["stab"], names)
        a = A.SetStat("stat", lag=off(p["lag"]))
    elif algo == "SelectWhere":
        kw["sig"] = pd.DataFrame(case["stab"], index=[EPOCH + pd.Timedelta(days=d) for d in case["sdays"]], columns=names)
        a = A.SelectWhere("sig", include_no_data=nd, include_negative=ng)
    elif algo == "SelectRandomly":
        a = A.SelectRandomly(n=None if p["n"] < 0 else p["n"], include_no_data=nd, include_negative=ng)
    elif algo == "SelectRegex":
        a = A.SelectRegex(p["regex"])
    elif algo == "SelectActive":
        a = A.SelectActive()
    elif algo == "SelectTypes":
        core = bt.core
        inc, exc_ = {"all": ((core.Node,), ()), "secbase": ((core.SecurityBase,), ()), "no_cp": ((core.Node,), (core.CouponPayingSecurity,)), "strategies": ((core.StrategyBase,), ())}[p["mode"]]
        a = A.SelectTypes(include_types=inc, exclude_types=exc_)
    elif algo == "ResolveOnTheRun":
        al = ["al%d" % j for j in range(p["nal"])]
        kw["otr"] = pd.DataFrame([[names[v - 1] for v in row] for row in p["otrtab"]], index=uni.index, columns=al)
        a = A.ResolveOnTheRun("otr", include_no_data=nd, include_negative=ng)
    else:
        raise ValueError(algo)
    if algo == "SelectTypes":
        core = bt.core
        kids = []
        for nm, k in zip(names, p["kinds"]):
            kids.append(core.Security(nm) if k == "sec" else core.CouponPayingSecurity(nm) if k == "cp" else bt.Strategy(nm))
        s = bt.Strategy("s", children=kids)
        s.temp = {}
    else:
        declared = case.get("nsub", 0) > 0 or case.get("scope", list(range(1, K + 1))) != list(range(1, K + 1))
        if declared:
            s = bt.Strategy("s", children=[names[i - 1] for i in case["scope"]] + [bt.Strategy("sub%d" % j) for j in range(case["nsub"])])
        else:
            s = bt.Strategy("s")
        s.setup(uni, **kw)
        s.update(uni.index[now - 1])
        s.temp = {}
    pre = case["pre"]

    def nm_of(i):
        return names[i - 1] if i <= K else "al%d" % (i - K - 1)

    if pre["hassel"]:
        s.temp["selected"] = [nm_of(i) for i in pre["sel"]]
    if pre["hasstat"]:
        s.temp["stat"] = pd.Series([float("nan") if v is None else float(v) for v in pre["stat"]], index=names)
    if algo == "SelectActive":
        if p["hasclosed"]:
            s.perm["closed"] = set(names[i - 1] for i in p["closed"])
        if p["hasrolled"]:
            s.perm["rolled"] = set(names[i - 1] for i in p["rolled"])
    random.seed(case.get("rseed", 1))
    exc, ret = "none", False
    try:
        ret = bool(a(s))
    except Exception as e:  # noqa: BLE001
        exc = type(e).__name__
    idx = {n: i + 1 for i, n in enumerate(names)}
    for j in range(4):
        idx["al%d" % j] = K + 1 + j
        idx["sub%d" % j] = K + 1 + j
    out = {"ret": ret, "hassel": "selected" in s.temp, "sel": [], "hasstat": "stat" in s.temp, "stat": [NAN] * K}
    if out["hassel"]:
        try:
            out["sel"] = [idx.get(x, 99) for x in list(s.temp["selected"])]
        except Exception:  # noqa: BLE001
            out["sel"] = [99]
    if out["hasstat"]:
        st = s.temp["stat"]
        out["stat"] = [r_(float(st[n])) if n in st.index else NAN for n in names]
    tr = dict(case)
    tr["U"] = [[r_(v) for v in row] for row in U]
    tr["pre"] = dict(pre, stat=[r_(v) for v in pre["stat"]])
    tr["stab"] = [[r_(v) for v in row] for row in case["stab"]]
    tr["out"] = out
    tr["exc"] = exc
    return tr


def run(prop, tier, replay=None):
    known_db = common.load_known()
    rep = common.Report(prop, tier)
    rng = random.Random(common.seed())
    n = 2600 if tier == "quick" else 60000
    cases = []
    for i in range(n):
        c = gen_case(rng, ALGOS[i % len(ALGOS)])
        c["rseed"] = rng.randint(0, 10**6)
        cases.append(c)
    if replay:
        import json

        cases = [json.load(open(replay))["case"]]
    traces = common.pool_map(run_case, cases, chunksize=64)
    for i, t in enumerate(traces):
        t["tid"] = i + 1
    try:
        verdicts, st = common.validate_parallel("Trace_BtSelect", traces, batch=600)
    except tlcrun.TlcError as e:
        rep.machinery_errors.append(str(e)[:1500])
        return rep.finish(known_db)
    rep.add_tlc(st["generated"], st["distinct"], key="validation:Trace_BtSelect", seconds=round(st["seconds"], 1), batches=st["batches"])
    rep.cov["traces_validated_against_impl"] = len(verdicts)
    counts, per_algo = {}, {}
    seen = set()
    for tid, v in sorted(verdicts.items()):
        counts[v["verdict"]] = counts.get(v["verdict"], 0) + 1
        algo = cases[tid - 1]["algo"]
        per_algo[algo] = per_algo.get(algo, 0) + 1
        if v["verdict"] == "KNOWN" and known_db.get(v["kf"], {}).get("status") == "open":
            rep.known[v["kf"]] = rep.known.get(v["kf"], 0) + 1
        elif v["verdict"] in ("FAIL", "KNOWN"):
            sig = (algo, tuple(v["clauses"]))
            if sig in seen and len(rep.violations) >= 6:
                continue
            seen.add(sig)
            rep.violation(sig, {"kind": "select", "case": cases[tid - 1], "observed": traces[tid - 1]["out"], "exc": traces[tid - 1]["exc"], "verdict": v}, "%s case %d: %s (p=%s)" % (algo, tid, ",".join(v["clauses"]), cases[tid - 1]["p"]))
    rep.extra["verdicts"] = counts
    rep.extra["cases_per_algo"] = per_algo
    rep.cov["states"] = max(rep.cov["states"], 1)
    rep.cov["transitions"] = max(rep.cov["transitions"], 1)
    rep.cov["samples"] = [{k: traces[i][k] for k in ("algo", "p", "day", "now", "U", "pre", "out")} for i in (0, 3) if i < len(traces)]
    rep.extra["sources"] = __import__("btload").source_info()
    rep.assumptions = ["universes of 3-4 tickers x 5-6 dates (consecutive or with gaps), cells in {NaN, -1, 0, 1..8}, late listings",
                       "parameter combination include_no_data=True with include_negative=False is not generated (its meaning is ambiguous in the docs)",
                       "SelectRegex: Python's re is trusted (the match table is an input of the specification)"]
    return rep.finish(known_db)
