"""C19: tree wiring, universe scoping, lazy children, settings propagation.
Construction programs (children given as lists, dicts (renaming), strings,
nodes, nested strategies, strategies attached later with parent=) are executed
on the real classes; TLC (BtWire / Trace_BtWire) compares the resulting tree
with the structure the program implies, checks the universe columns of every
strategy and the propagation of integer-position and commission settings.
Pair runs: the same backtest program with children given as strings (created on
first use) and as Security objects constructed up front must record the same
histories bit for bit (Trace_BtPair)."""
import json
import random

import btdrv
import btgen
import common
import pairdrv
import tlcrun
from treedrv import bt, np, pd

core = bt.core
COLS = ["a", "b", "c", "d"]


def gen_prog(rng, depth=0, names=None):
    """A construction program: nested dict describing how each node is given."""
    names = names if names is not None else {"n": 0}

    def sname():
        names["n"] += 1
        return "s%d" % names["n"]

    node = {"name": sname() if depth else "r", "via": rng.choice(["list", "list", "dict"]), "children": [], "attach": [], "late": []}
    nkids = rng.randint(0, 3 if depth < 2 else 2)
    tickers = rng.sample(COLS + ["zz"], min(nkids, 5))
    for t in tickers:
        k = rng.random()
        if k < 0.4:
            node["children"].append({"how": "string", "name": t})
        elif k < 0.7:
            node["children"].append({"how": "node", "sec": t, "mult": rng.choice([1, 2])})
        elif depth < 2:
            node["children"].append({"how": "nested", "strat": gen_prog(rng, depth + 1, names)})
    if depth < 2 and rng.random() < 0.35:
        node["attach"].append(gen_prog(rng, depth + 1, names))
    if depth < 2 and rng.random() < 0.3:
        # a strategy created while the tree is live (setup_from_parent): declares some tickers or none
        node["late"].append({"name": sname(), "via": "list", "attach": [], "late": [],
                             "children": [{"how": "string", "name": t} for t in rng.sample(COLS, rng.choice([0, 0, 1, 2]))]})
    if node["via"] == "dict":
        for c in node["children"]:
            if rng.random() < 0.5:
                c["key"] = (c.get("name") or c.get("sec") or c["strat"]["name"]) + "x"
    return node


def child_name(c):
    base = c.get("name") or c.get("sec") or c["strat"]["name"]
    return c.get("key", base)


def flatten(node, decl=None, par=0, path=None):
    decl = decl if decl is not None else []
    path = path or node["name"]
    decl.append({"path": path, "name": path.split(">")[-1], "par": par, "kind": "strat", "how": "root" if par == 0 else "nested"})
    me = len(decl)
    for c in node["children"]:
        nm = child_name(c)
        if c["how"] == "nested":
            flatten(dict(c["strat"], name=nm), decl, me, path + ">" + nm)
        else:
            decl.append({"path": path + ">" + nm, "name": nm, "par": me, "kind": "sec", "how": c["how"]})
    for a in node["attach"]:
        flatten(a, decl, me, path + ">" + a["name"])
        decl[-1 if False else [i for i, d in enumerate(decl) if d["path"] == path + ">" + a["name"]][0]]["how"] = "parent"
    for a in node.get("late", []):
        flatten(a, decl, me, path + ">" + a["name"])
        [d for d in decl if d["path"] == path + ">" + a["name"]][0]["how"] = "late"
    return decl


def build(node, parent=None):
    kids = []
    for c in node["children"]:
        if c["how"] == "string":
            obj = c["name"]
        elif c["how"] == "node":
            obj = core.Security(c["sec"], multiplier=c["mult"])
        else:
            obj = build(c["strat"])
        kids.append((c, obj))
    if node["via"] == "dict":
        children = {}
        for c, obj in kids:
            children[child_name(c)] = obj
        if len(children) != len(kids):
            raise ValueError("duplicate key in program")
    else:
        children = [obj for _, obj in kids]
    if parent is None:
        s = bt.Strategy(node["name"], children=children or None)
    else:
        s = bt.Strategy(node["name"], children=children or None, parent=parent)
    for a in node["attach"]:
        build(a, parent=s)
    return s


class Comm:
    def __init__(self, cid):
        self.cid = cid

    def __call__(self, q, p):
        return 0.0


def run_case(case):
    prog, intpushes, commpushes, dup = case["prog"], case["intpushes"], case["commpushes"], case.get("dup")
    decl = flatten(prog)
    tr = {"decl": decl, "cols": COLS, "intpushes": intpushes, "commpushes": commpushes, "expect_error": bool(dup), "raised": False, "obs": [], "npre_int": 0, "npre_comm": 0}
    try:
        if dup:
            p2 = json.loads(json.dumps(prog))
            tgt = p2
            kind = dup
            if kind == "strings":
                tgt["children"] += [{"how": "string", "name": "a"}, {"how": "string", "name": "a"}]
            elif kind == "nodes":
                tgt["children"] += [{"how": "node", "sec": "b", "mult": 1}, {"how": "node", "sec": "b", "mult": 2}]
            elif kind == "strats":
                tgt["children"] += [{"how": "nested", "strat": {"name": "dup", "via": "list", "children": [], "attach": []}}, {"how": "nested", "strat": {"name": "dup", "via": "list", "children": [], "attach": []}}]
            tgt["via"] = "list"
            for c in tgt["children"]:
                c.pop("key", None)
            build(p2)
            return tr
        root = build(prog)
        dts = pd.date_range("2010-01-04", periods=3)
        data = pd.DataFrame({c: [10.0, 11.0, 12.0] for c in COLS}, index=dts)
        nodes = {}

        def index_nodes():
            nodes.clear()
            for m in root.members:
                nodes[m.full_name] = m

        index_nodes()
        # pushes before the lazily declared children exist
        half = len(intpushes) // 2
        for k, pu in enumerate(intpushes[:half]):
            nodes[decl[pu["node"] - 1]["path"]].use_integer_positions(pu["value"])
        for pu in commpushes[: len(commpushes) // 2]:
            nodes[decl[pu["node"] - 1]["path"]].set_commissions(Comm(pu["value"]))
        tr["npre_int"], tr["npre_comm"] = half, len(commpushes) // 2
        root.setup(data)
        root.update(dts[0])
        # strategies created on the live tree
        def late_of(node, path):
            for a in node.get("late", []):
                yield path, a
            for c in node["children"]:
                if c["how"] == "nested":
                    nm = child_name(c)
                    yield from late_of(dict(c["strat"], name=nm), path + ">" + nm)
            for a in node["attach"]:
                yield from late_of(a, path + ">" + a["name"])

        for ppath, a in list(late_of(prog, prog["name"])):
            index_nodes()
            par = nodes[ppath]
            kid = bt.Strategy(a["name"], children=[c["name"] for c in a["children"]] or None, parent=par)
            kid.setup_from_parent()
            kid.update(par.now)
        root.update(dts[0])
        # first use of every child declared by a string
        for d in decl:
            if d["kind"] == "sec" and d["how"] == "string" and d["name"] in COLS:
                index_nodes()
                par = nodes[decl[d["par"] - 1]["path"]]
                par.allocate(0.0, child=d["name"])
        index_nodes()
        for pu in intpushes[half:]:
            nodes[decl[pu["node"] - 1]["path"]].use_integer_positions(pu["value"])
        for pu in commpushes[len(commpushes) // 2 :]:
            nodes[decl[pu["node"] - 1]["path"]].set_commissions(Comm(pu["value"]))
        index_nodes()
        declared = {d["path"]: d for d in decl}
        for m in root.members:
            o = {"path": m.full_name, "name": m.name, "parpath": m.parent.full_name, "rootname": m.root.name,
                 "kind": "strat" if isinstance(m, core.StrategyBase) else "sec", "intpos": bool(m.integer_positions), "comm": 0, "universe": []}
            if o["kind"] == "strat":
                o["comm"] = getattr(m.commission_fn, "cid", 0)
                o["universe"] = list(m.universe.columns)
            tr["obs"].append(o)
        # securities declared by a string that are not data columns never become real:
        # they stay in the declaration (they scope the universe) marked as ghosts
        for d in decl:
            if d["kind"] == "sec" and d["how"] == "string" and d["name"] not in COLS:
                d["how"] = "ghost"
    except Exception as e:  # noqa: BLE001
        tr["raised"] = True
        tr["exc"] = type(e).__name__ + ": " + str(e)[:80]
    return tr


def gen_case(rng, i):
    prog = gen_prog(rng)
    decl = flatten(prog)
    strat_idx = [k + 1 for k, d in enumerate(decl) if d["kind"] == "strat"]
    keep = [k + 1 for k, d in enumerate(decl) if not (d["kind"] == "sec" and d["how"] == "string" and d["name"] not in COLS)]
    early_idx = [k for k in strat_idx if not any(decl[j]["how"] == "late" for j in range(len(decl)) if decl[k - 1]["path"] == decl[j]["path"] or decl[k - 1]["path"].startswith(decl[j]["path"] + ">"))]
    intp = [{"node": rng.choice([n for n in strat_idx]), "value": rng.random() < 0.5} for _ in range(rng.randint(0, 4))]

    if intp and rng.random() < 0.6:
        # the pattern 'a branch diverges, then the root re-asserts the value it already has'
        intp.append({"node": 1, "value": True})
    for j in range(len(intp) // 2):  # the first half is pushed before the live-created strategies exist
        if intp[j]["node"] not in early_idx:
            intp[j]["node"] = rng.choice(early_idx)
    commp = [{"node": rng.choice(strat_idx), "value": rng.randint(1, 5)} for _ in range(rng.randint(0, 3))]
    for j in range(len(commp) // 2):
        commp[j]["node"] = rng.choice(early_idx)
    dup = rng.choice([None] * 8 + ["strings", "nodes", "strats"])
    return {"prog": prog, "intpushes": intp, "commpushes": commp, "dup": dup, "i": i}


def _pair(args):
    seed, i = args
    prog = btgen.prog_by_family(seed, i, ["flat", "nested", "nested09", "lookback"])
    ra = btdrv.run_program(prog, record=False, seed=seed * 131 + i, lazy=True)
    rb = btdrv.run_program(prog, record=False, seed=seed * 131 + i, lazy=False)
    out = {"i": i, "exc": (ra["exc"], rb["exc"]), "prog": prog}
    if ra["exc"] != "none" or rb["exc"] != "none":
        return out
    # (children created in another order add up in another order: fixed point, not bits)
    da, db = pairdrv.digests(ra["bt"], prog, fixed=True), pairdrv.digests(rb["bt"], prog, fixed=True)
    out["trace"] = {"prop": "C19", "rel": "equal", "cut": 0, "series": [{"name": "C19.lazy_eager." + f, "a": da[f], "b": db[f]} for f in pairdrv.FAMILIES], "pre": []}
    return out


def run(prop, tier, replay=None):
    known_db = common.load_known()
    rep = common.Report(prop, tier)
    rng = random.Random(common.seed())
    seed = common.seed()
    n = 600 if tier == "quick" else 20000
    cases = [gen_case(rng, i) for i in range(n)]
    rp = json.load(open(replay)) if replay else None
    if rp is not None and rp.get("kind") == "wire-pair":
        cases = []
    elif replay:
        cases = [rp["case"]]
    traces = common.pool_map(run_case, cases, chunksize=32)
    for i, t in enumerate(traces):
        t["tid"] = i + 1
    try:
        verdicts, st = common.validate_parallel("Trace_BtWire", traces, batch=300)
    except tlcrun.TlcError as e:
        rep.machinery_errors.append(str(e)[:1500])
        return rep.finish(known_db)
    rep.add_tlc(st["generated"], st["distinct"], key="validation:Trace_BtWire", seconds=round(st["seconds"], 1), batches=st["batches"])
    rep.cov["traces_validated_against_impl"] = len(verdicts)
    counts = {}
    seen = set()
    for tid, v in sorted(verdicts.items()):
        counts[v["verdict"]] = counts.get(v["verdict"], 0) + 1
        if v["verdict"] == "FAIL":
            sig = tuple(sorted(set(c.split("[")[0] for c in v["clauses"])))
            if sig == ("C19.commissions.K16",) and known_db.get("K16", {}).get("status") == "open":
                rep.known["K16"] = rep.known.get("K16", 0) + 1
                continue
            if sig in seen and len(rep.violations) >= 5:
                continue
            seen.add(sig)
            rep.violation(sig, {"kind": "wire", "case": cases[tid - 1], "trace": traces[tid - 1], "verdict": v}, "construction %d: %s %s" % (tid, ", ".join(v["clauses"][:5]), traces[tid - 1].get("exc", "")))
    rep.extra["verdicts"] = counts
    # lazy vs eager pairs
    npairs = 60 if tier == "quick" else 2000
    if rp is not None and rp.get("kind") == "wire-pair":
        pres = [_pair((rp["seed"], rp["i"]))]
    else:
        pres = common.pool_map(_pair, [(seed, i) for i in range(npairs)], chunksize=2) if not replay else []
    ptr, owner = [], {}
    for r in pres:
        if "trace" in r:
            t = r["trace"]
            t["tid"] = len(ptr) + 1
            owner[t["tid"]] = r
            ptr.append(t)
    if ptr:
        try:
            pv, pst = common.validate_parallel("Trace_BtPair", ptr, batch=300)
        except tlcrun.TlcError as e:
            rep.machinery_errors.append(str(e)[:1500])
            return rep.finish(known_db)
        rep.add_tlc(pst["generated"], pst["distinct"], key="validation:Trace_BtPair(lazy/eager)", seconds=round(pst["seconds"], 1), batches=pst["batches"])
        rep.cov["traces_validated_against_impl"] += len(pv)
        pc = {}
        for tid, v in sorted(pv.items()):
            pc[v["verdict"]] = pc.get(v["verdict"], 0) + 1
            if v["verdict"] == "FAIL":
                r = owner[tid]
                rep.violation(("C19.lazy_eager",), {"kind": "wire-pair", "seed": seed, "i": r["i"], "prog": r["prog"], "verdict": v}, "program %d: lazy and eager children differ in %s" % (r["i"], ", ".join(v["clauses"][:4])))
        rep.extra["pair_verdicts"] = pc
    rep.extra["constructions"] = len(cases)
    rep.cov["states"] = max(rep.cov["states"], 1)
    rep.cov["transitions"] = max(rep.cov["transitions"], 1)
    rep.cov["samples"] = [{"program": cases[0]["prog"], "decl": traces[0]["decl"], "obs": traces[0]["obs"][:4]}] if cases else []
    rep.extra["sources"] = __import__("btload").source_info()
    rep.assumptions = ["construction programs with <= 3 levels; a security declared by a string that is not a data column is treated as absent", "lazy children are made real by a zero allocation before the tree is observed"]
    return rep.finish(known_db)
