"""Running TLC and reading its output."""
import json
import os
import re
import shutil
import subprocess
import tempfile
import time

SPEC_DIR = os.path.join(os.path.dirname(os.path.dirname(os.path.abspath(__file__))), "spec")
JAR = "/opt/veriftools/tla/tla2tools.jar"


class TlcError(Exception):
    pass


def scratch_dir(prefix="btverif-"):
    base = os.environ.get("TMPDIR", "/tmp")
    return tempfile.mkdtemp(prefix=prefix, dir=base)


def _parse_tuple_lines(out, tag):
    """Yield python structures for TLC-printed tuples  <<"tag", ...>>.  TLC
    pretty-prints long values over several lines, so values are extracted by
    bracket matching (trace validation runs with one worker: no interleaving)."""
    for m in re.finditer(r'^<<\s*"%s",' % tag, out, flags=re.M):
        i = m.start()
        depth = 0
        j = i
        while j < len(out):
            if out.startswith("<<", j):
                depth += 1
                j += 2
                continue
            if out.startswith(">>", j):
                depth -= 1
                j += 2
                if depth == 0:
                    break
                continue
            j += 1
        yield parse_tla(out[i:j])


def parse_tla(s):
    """Parse the subset of TLA+ values that TLC prints: tuples, sets, strings,
    integers, booleans, records."""
    pos = [0]

    def ws():
        while pos[0] < len(s) and s[pos[0]] in " \n\t":
            pos[0] += 1

    def val():
        ws()
        if s.startswith("<<", pos[0]):
            pos[0] += 2
            items = []
            ws()
            if s.startswith(">>", pos[0]):
                pos[0] += 2
                return items
            while True:
                items.append(val())
                ws()
                if s.startswith(">>", pos[0]):
                    pos[0] += 2
                    return items
                assert s[pos[0]] == ",", (s, pos[0])
                pos[0] += 1
        if s[pos[0]] == "{":
            pos[0] += 1
            items = []
            ws()
            if s[pos[0]] == "}":
                pos[0] += 1
                return items
            while True:
                items.append(val())
                ws()
                if s[pos[0]] == "}":
                    pos[0] += 1
                    return items
                assert s[pos[0]] == ",", (s, pos[0])
                pos[0] += 1
        if s[pos[0]] == "[":
            pos[0] += 1
            rec = {}
            while True:
                ws()
                m = re.match(r"(\w+)\s*\|->", s[pos[0] :])
                assert m, (s, pos[0])
                pos[0] += m.end()
                rec[m.group(1)] = val()
                ws()
                if s[pos[0]] == "]":
                    pos[0] += 1
                    return rec
                assert s[pos[0]] == ",", (s, pos[0])
                pos[0] += 1
        if s[pos[0]] == '"':
            j = s.index('"', pos[0] + 1)
            r = s[pos[0] + 1 : j]
            pos[0] = j + 1
            return r
        m = re.match(r"-?\d+", s[pos[0] :])
        if m:
            pos[0] += m.end()
            return int(m.group(0))
        for lit, v in (("TRUE", True), ("FALSE", False)):
            if s.startswith(lit, pos[0]):
                pos[0] += len(lit)
                return v
        raise ValueError("cannot parse %r at %d" % (s, pos[0]))

    return val()


def run_tlc(module, cfg=None, env=None, workers=1, timeout=600, extra=(), cwd=None, simulate=None):
    """Run TLC on spec/<module>.tla; returns (stdout, seconds)."""
    meta = scratch_dir()
    cmd = ["java", "-XX:+UseParallelGC", "-Xmx3g", "-Xss64m", "-cp", JAR, "tlc2.TLC", "-workers", str(workers), "-metadir", meta, "-noGenerateSpecTE"]
    if cfg:
        cmd += ["-config", cfg]
    if simulate:
        cmd += ["-simulate", simulate]
    cmd += list(extra) + [module + ".tla"]
    e = dict(os.environ)
    e.setdefault("TRACE_DEBUG", "0")
    e.update(env or {})
    # CommunityModules are on the tlc wrapper's classpath; find them
    cp = _classpath()
    cmd[cmd.index(JAR)] = cp
    t0 = time.time()
    try:
        p = subprocess.run(cmd, cwd=cwd or SPEC_DIR, env=e, capture_output=True, text=True, timeout=timeout)
        out = p.stdout + p.stderr
    except subprocess.TimeoutExpired as ex:
        out = (ex.stdout or b"").decode() if isinstance(ex.stdout, bytes) else (ex.stdout or "")
        out += "\nTIMEOUT"
    finally:
        shutil.rmtree(meta, ignore_errors=True)
    return out, time.time() - t0


_CP = None


def _classpath():
    global _CP
    if _CP is None:
        # read the tlc wrapper to get the classpath it uses
        cp = JAR
        try:
            w = open(shutil.which("tlc")).read()
            m = re.search(r"-cp\s+\"?([^\s\"]+)", w)
            if m:
                cp = m.group(1)
        except Exception:  # noqa: BLE001
            pass
        _CP = cp
    return _CP


def stats(out):
    """Distinct / generated state counts of a TLC run (0 when absent)."""
    m = re.search(r"(\d[\d,]*) states generated, (\d[\d,]*) distinct states found", out)
    if not m:
        return 0, 0
    return int(m.group(1).replace(",", "")), int(m.group(2).replace(",", ""))


def validate_batch(module, traces, timeout=600):
    """Validate a list of trace dicts with spec/<module>.tla.  Returns
    (verdicts: {tid: {...}}, tlc_stats, raw_out)."""
    d = scratch_dir()
    path = os.path.join(d, "traces.json")
    try:
        with open(path, "w") as fh:
            json.dump({"traces": traces}, fh)
        out, secs = run_tlc(module, cfg=module + ".cfg", env={"TRACE_FILE": path}, workers=1, timeout=timeout)
    finally:
        shutil.rmtree(d, ignore_errors=True)
    verdicts = {}
    for v in _parse_tuple_lines(out, "V"):
        _, tid, verdict, at, what, kf = v
        verdicts[tid] = {"verdict": verdict, "at": at, "clauses": sorted("%s[%s]" % (c[0], c[1]) for c in what), "kf": kf}
    skips = {}
    for v in _parse_tuple_lines(out, "S"):
        skips.setdefault(v[1], []).append((v[2], sorted("%s[%s]" % (c[0], c[1]) for c in v[3])))
    knowns = {}
    for v in _parse_tuple_lines(out, "K"):
        knowns.setdefault(v[1], []).append((v[2], sorted("%s:%s[%s]" % (c[0], c[1], c[2]) for c in v[3])))
    for tid, ks in knowns.items():
        if tid in verdicts:
            verdicts[tid]["knowns"] = ks
    gen, dist = stats(out)
    ok = "Model checking completed" in out or "Finished in" in out
    if not ok or len(verdicts) != len(traces):
        i = out.find("Error:")
        raise TlcError("trace validation did not complete (%d/%d verdicts)\n%s" % (len(verdicts), len(traces), out[i : i + 2500] if i >= 0 else out[-2500:]))
    return verdicts, {"generated": gen, "distinct": dist, "seconds": secs, "skips": skips}, out
