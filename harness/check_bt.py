"""Backtest-level checks: generated programs (strategy trees assembled from
the stock algos) are run through the real bt.Backtest under the recorder; each
recorded root (main tree and paper-trading shadows) is validated by TLC
against Trace_BtAbs."""
import json
import os
import re

import btdrv
import btgen
import common
import tlcrun


def _one(args):
    seed, i, family = args
    prog = btgen.prog_by_family(seed, i, family)
    out = btdrv.run_program(prog, tid0=10 * i, seed=seed * 131 + i)
    for t in out["traces"]:
        t["prog_idx"] = i
    return {"prog": prog, "traces": out["traces"], "exc": out["exc"], "msg": out["msg"]}


def stage(rep, prop, family, n, known_db, label=None):
    """Run n programs of a family, validate, classify for `prop`."""
    seed = common.seed()
    res = common.pool_map(_one, [(seed, i, family) for i in range(n)], chunksize=2)
    traces = [t for r in res for t in r["traces"]]
    progs = {r["prog"]["idx"]: r["prog"] for r in res}
    slim = [{"tid": t["tid"], "C": t["C"], "events": t["events"]} for t in traces]
    try:
        verdicts, st = common.validate_parallel("Trace_BtAbs", slim, batch=30)
    except tlcrun.TlcError as e:
        rep.machinery_errors.append(str(e)[:1500])
        return
    rep.add_tlc(st["generated"], st["distinct"], key="validation:Trace_BtAbs(%s)" % (label or family), seconds=round(st["seconds"], 1), batches=st["batches"])
    rep.cov["traces_validated_against_impl"] += len(verdicts)
    rep.extra["bt_programs"] = rep.extra.get("bt_programs", 0) + len(res)
    rep.extra["bt_events_validated"] = rep.extra.get("bt_events_validated", 0) + sum(len(t["events"]) for t in traces)
    counts = {}
    seen = set()
    by_tid = {t["tid"]: t for t in traces}
    for tid, v in sorted(verdicts.items()):
        counts[v["verdict"]] = counts.get(v["verdict"], 0) + 1
        tr = by_tid[tid]
        for _, ks in v.get("knowns", []):
            for k in ks:
                kid = k.split(":", 1)[0]
                if prop in known_db.get(kid, {}).get("properties", []):
                    rep.known[kid] = rep.known.get(kid, 0) + 1
        if v["verdict"] in ("FAIL", "KNOWN"):
            kid = v["kf"]
            e = known_db.get(kid)
            mine = [c for c in v["clauses"] if common.clause_prop(c) == prop]
            if v["verdict"] == "KNOWN" and e is not None and e.get("status") == "open":
                if prop in e.get("properties", []):
                    rep.known[kid] = rep.known.get(kid, 0) + 1
                continue
            if mine:
                sig = tuple(sorted(set(re.sub(r"\[\d+\]", "", c) for c in mine)))
                if sig in seen and len(rep.violations) >= 5:
                    continue
                seen.add(sig)
                payload = {"kind": "bt", "property": prop, "prog": progs[tr["prog_idx"]], "root": tr["label"], "verdict": v, "seed": seed * 131 + tr["prog_idx"]}
                rep.violation(sig, payload, "program %d (%s) root %s event %d: clauses %s" % (tr["prog_idx"], progs[tr["prog_idx"]].get("family"), tr["label"], v["at"], ",".join(mine[:6])))
            else:
                o = rep.extra.setdefault("failures_of_other_properties_seen", {})
                for c in v["clauses"]:
                    o[common.clause_prop(c)] = o.get(common.clause_prop(c), 0) + 1
    vc = rep.extra.setdefault("bt_verdicts", {})
    for k, x in counts.items():
        vc[k] = vc.get(k, 0) + x
    excs = [r for r in res if r["exc"] != "none"]
    rep.extra["bt_programs_raising"] = rep.extra.get("bt_programs_raising", 0) + len(excs)
    if traces and len(rep.cov["samples"]) < 3:
        t = traces[0]
        rep.cov["samples"].append({"program": progs[t["prog_idx"]]["tree"], "root": t["label"], "events": [{k: e[k] for k in ("op", "node", "child", "a", "b", "upd", "date", "trades", "exc") if k in e} for e in t["events"][:10]], "n_events": len(t["events"])})
    return res, traces, verdicts


PROFILES = {
    "C06": dict(families=[(["flat", "nested"], (120, 2500)), ("cashstep", (24, 300))], mc=("F2zero", 2, 2, 1),
                tree=(dict(nops=14, trees=["N1", "S2", "N2", "N1"], leverage=True, comm="zero", p_flow=0.1), (120, 2500))),
}


def run(prop, tier, replay=None):
    import check_tree

    known_db = common.load_known()
    if replay:
        return do_replay(prop, replay)
    rep = common.Report(prop, tier)
    prof = PROFILES[prop]
    which, mo, mt, sl = prof["mc"]
    complete = check_tree.run_mc(rep, which, mo, mt, sl, timeout=240 if tier == "quick" else 1500)
    rep.cov["exhaustive"] = bool(complete)
    for fam, (nq, nt) in prof["families"]:
        stage(rep, prop, fam, nq if tier == "quick" else nt, known_db)
    if "tree" in prof:
        # tree-level histories: sub-strategies holding longs and shorts, re-allocated by their parents
        kw, (nq, nt) = prof["tree"]
        n = nq if tier == "quick" else nt
        traces = [t for t in common.pool_map(check_tree._run_one_fast, [(common.seed(), 70000 + i, kw, 0.0) for i in range(n)]) if "setup_exc" not in t]
        try:
            verdicts, st = common.validate_parallel("Trace_BtAbs", [{"tid": t["tid"], "C": t["C"], "events": t["events"]} for t in traces])
            rep.add_tlc(st["generated"], st["distinct"], key="validation:Trace_BtAbs(tree histories)", seconds=round(st["seconds"], 1), batches=st["batches"])
            rep.cov["traces_validated_against_impl"] += len(verdicts)
            check_tree.classify(rep, prop, traces, verdicts, known_db)
        except tlcrun.TlcError as e:
            rep.machinery_errors.append(str(e)[:1500])
    rep.extra["sources"] = __import__("btload").source_info()
    rep.assumptions = [
        "programs from the generator grammar (harness/btgen.py): stock algos only plus SetCash (temp['cash'])",
        "exact-lattice data (integer prices, lattice weights); traces leaving the representable range are skipped, not judged",
        "interpreted build of bt/core.py loaded from the working tree",
    ]
    return rep.finish(known_db)


def do_replay(prop, path):
    with open(path) as fh:
        p = json.load(fh)
    out = btdrv.run_program(p["prog"], tid0=0, seed=p.get("seed"))
    os.environ["TRACE_DEBUG"] = "1"
    bad = False
    for t in out["traces"]:
        if t["label"] != p.get("root", t["label"]):
            continue
        v, st, o = tlcrun.validate_batch("Trace_BtAbs", [{"tid": t["tid"], "C": t["C"], "events": t["events"]}])
        x = v[t["tid"]]
        print(t["label"], json.dumps(x))
        for d in tlcrun._parse_tuple_lines(o, "D"):
            print(json.dumps(d[3])[:2000])
        if x["verdict"] == "FAIL" and any(common.clause_prop(c) == prop for c in x["clauses"]):
            bad = True
    if bad:
        print("VIOLATION property=%s replay=%s" % (prop, path))
    return 1 if bad else 0
