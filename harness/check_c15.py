"""C15: weighting algos.  Cases are executed on the real algo classes against
a real Strategy holding a real portfolio; TLC (Trace_BtWeigh / BtWeigh)
recomputes the documented weights - exactly for the rational algos, as
relations over exact window statistics for the risk-based ones - and compares."""
import math
import json
import random
from fractions import Fraction

import common
import tlcrun
from num import NAN, Decoder
from treedrv import bt, np, pd

A = bt.algos
NAMES = ["a", "b", "c"]
EPOCH = pd.Timestamp("2020-01-01")
DEC = Decoder(1000000)
ALGOS = ["WeighEqually", "WeighSpecified", "ScaleWeights", "WeighTarget", "LimitDeltas", "LimitWeights", "WeighRandomly", "WeighInvVol", "TargetVol", "PTE_Rebalance"]
LAT = [Fraction(1, 2), Fraction(1, 4), Fraction(1, 5), Fraction(3, 10), Fraction(1, 10), Fraction(3, 4), Fraction(-1, 4), Fraction(0), Fraction(1)]


def rr(x):
    if x is None:
        return NAN
    if isinstance(x, Fraction):
        return [x.numerator, x.denominator]
    if isinstance(x, int):
        return [x, 1]
    return DEC(x)


def wseq(d, idx):
    return [[idx[k], rr(v)] for k, v in d.items()]


def gen_case(rng, algo):
    K = 3
    T = 7
    days = list(range(T)) if rng.random() < 0.6 else sorted(rng.sample(range(T + 3), T))
    P = [[rng.choice([1, 2, 2, 4, 4, 8]) for _ in range(K)] for _ in range(T)]
    now = rng.randint(5, T)
    c = {"algo": algo, "K": K, "day": days, "P": P, "now": now, "p": {}, "sel": [], "prew": None, "alloc": {}, "alloc_row": rng.randint(1, 3)}
    p = c["p"]
    sel = rng.sample(range(1, K + 1), rng.randint(0, K))
    if algo == "WeighEqually":
        c["sel"] = sel
    elif algo == "WeighSpecified":
        p["w"] = {k: rng.choice(LAT) for k in rng.sample(range(1, K + 1), rng.randint(0, K))}
    elif algo == "ScaleWeights":
        c["prew"] = {k: rng.choice(LAT) for k in sel}
        p["scale"] = rng.choice([Fraction(-1), Fraction(1, 2), Fraction(2), Fraction(3, 2), Fraction(0)])
    elif algo == "WeighTarget":
        rows = sorted(rng.sample(range(T), rng.randint(1, T)))
        p["tdays"] = [days[i] for i in rows] + ([days[-1] + 50] if rng.random() < 0.3 else [])
        p["tab"] = [[(None if rng.random() < 0.25 else rng.choice(LAT)) for _ in range(K)] for _ in p["tdays"]]
        c["prew"] = {1: Fraction(1, 2)} if rng.random() < 0.3 else None
    elif algo == "LimitDeltas":
        c["alloc"] = {k: rng.choice([100, 200, 250, 400]) for k in rng.sample(range(1, K + 1), rng.randint(0, 3))}
        c["prew"] = {k: rng.choice(LAT) for k in rng.sample(range(1, K + 1), rng.randint(0, 3))}
        p["global"] = rng.random() < 0.6
        p["limit"] = rng.choice([Fraction(1, 10), Fraction(1, 4), Fraction(1, 2), Fraction(1, 20)])
        p["limits"] = {k: rng.choice([Fraction(1, 10), Fraction(1, 4), Fraction(0)]) for k in rng.sample(range(1, K + 1), rng.randint(0, 3))}
    elif algo == "LimitWeights":
        mode = rng.random()
        if mode < 0.1:
            c["prew"] = None
        elif mode < 0.2:
            c["prew"] = {}
        else:
            n = rng.randint(1, 3)
            parts = [rng.choice([1, 2, 3, 5]) for _ in range(n)]
            c["prew"] = {k + 1: Fraction(x, sum(parts)) for k, x in enumerate(parts)}
        p["limit"] = rng.choice([Fraction(1, 2), Fraction(2, 5), Fraction(1, 3), Fraction(3, 5), Fraction(1, 4), Fraction(9, 10)])
    elif algo == "WeighRandomly":
        c["sel"] = sel
        p["low"], p["high"] = rng.choice([(Fraction(0), Fraction(1)), (Fraction(1, 10), Fraction(1, 2)), (Fraction(1, 5), Fraction(2, 5)), (Fraction(0), Fraction(1, 4)), (Fraction(1, 2), Fraction(1))])
        p["total"] = rng.choice([Fraction(1), Fraction(1, 2), Fraction(3, 2)])
    elif algo == "WeighInvVol":
        c["sel"] = sel
        p["lookback"] = rng.choice([3, 4, 6])
        p["lag"] = rng.choice([0, 0, 1])
    elif algo == "TargetVol":
        ks = rng.sample(range(1, K + 1), rng.randint(0, 3))
        c["prew"] = {k: rng.choice([Fraction(1, 2), Fraction(1, 4), Fraction(1, 5), Fraction(3, 10), Fraction(1)]) for k in ks}
        p["vol"] = rng.choice([Fraction(1, 10), Fraction(1, 5), Fraction(1, 2)])
        p["af"] = rng.choice([Fraction(252), Fraction(4), Fraction(12)])
        p["lookback"] = rng.choice([3, 4, 6])
        p["lag"] = rng.choice([0, 0, 1])
    elif algo == "PTE_Rebalance":
        # positions opened in a random order, possibly not all; targets for a random subset
        order = rng.sample(range(1, K + 1), rng.randint(1, 3))
        c["alloc_order"] = order
        c["alloc"] = {k: rng.choice([100, 200, 300, 400]) for k in order}
        tcols = rng.sample(range(1, K + 1), rng.randint(1, 3))
        p["tcols"] = tcols
        p["target"] = [(rng.choice([Fraction(1, 2), Fraction(1, 4), Fraction(0), Fraction(1, 10), Fraction(3, 4)]) if (k + 1) in tcols else None) for k in range(K)]
        p["cap"] = rng.choice([Fraction(1, 100), Fraction(1, 20), Fraction(1, 10), Fraction(1, 4), Fraction(1, 2), Fraction(1)])
        p["af"] = rng.choice([Fraction(252), Fraction(4), Fraction(1)])
        p["lookback"] = rng.choice([3, 4, 6])
        p["lag"] = rng.choice([0, 0, 1])
    return c


def run_case(c):
    K, days, P, now = c["K"], c["day"], c["P"], c["now"]
    names = NAMES[:K]
    idx = {n: i + 1 for i, n in enumerate(names)}
    p = c["p"]
    algo = c["algo"]
    dts = [EPOCH + pd.Timedelta(days=d) for d in days]
    data = pd.DataFrame([[float(v) for v in row] for row in P], index=dts, columns=names)
    off = lambda d: pd.DateOffset(days=d)  # noqa: E731
    kw = {}
    P_ = {}
    if algo == "WeighTarget":
        tdts = [EPOCH + pd.Timedelta(days=d) for d in p["tdays"]]
        kw["tw"] = pd.DataFrame([[float("nan") if v is None else float(v) for v in row] for row in p["tab"]], index=tdts, columns=names)
    s = bt.Strategy("s", children=list(names) if algo != "PTE_Rebalance" else None)
    s.use_integer_positions(False)
    s.setup(data, **kw)
    s.adjust(1000.0)
    s.update(dts[c["alloc_row"] - 1])
    order = c.get("alloc_order") or sorted(c["alloc"])
    for k in order:
        s.allocate(float(c["alloc"][k]), names[k - 1])
    s.update(dts[c["alloc_row"] - 1])
    for r in range(c["alloc_row"], now):
        s.update(dts[r])
    s.temp = {}
    if c["sel"] is not None and algo in ("WeighEqually", "WeighRandomly", "WeighInvVol"):
        s.temp["selected"] = [names[k - 1] for k in c["sel"]]
    if c["prew"] is not None:
        s.temp["weights"] = {names[k - 1]: float(v) for k, v in c["prew"].items()}
    exc, ret = "none", False
    extra = {}
    try:
        if algo == "WeighEqually":
            a = A.WeighEqually()
        elif algo == "WeighSpecified":
            orig = {names[k - 1]: float(v) for k, v in p["w"].items()}
            a = A.WeighSpecified(**orig)
        elif algo == "ScaleWeights":
            a = A.ScaleWeights(float(p["scale"]))
        elif algo == "WeighTarget":
            a = A.WeighTarget("tw")
        elif algo == "LimitDeltas":
            a = A.LimitDeltas(float(p["limit"]) if p["global"] else {names[k - 1]: float(v) for k, v in p["limits"].items()})
        elif algo == "LimitWeights":
            a = A.LimitWeights(float(p["limit"]))
        elif algo == "WeighRandomly":
            a = A.WeighRandomly(bounds=(float(p["low"]), float(p["high"])), weight_sum=float(p["total"]))
        elif algo == "WeighInvVol":
            a = A.WeighInvVol(lookback=off(p["lookback"]), lag=off(p["lag"]))
        elif algo == "TargetVol":
            a = A.TargetVol(float(p["vol"]), lookback=off(p["lookback"]), lag=off(p["lag"]), covar_method="standard", annualization_factor=float(p["af"]))
        elif algo == "PTE_Rebalance":
            tw = pd.DataFrame([[float(p["target"][k - 1]) for k in p["tcols"]] for _ in dts], index=dts, columns=[names[k - 1] for k in p["tcols"]])
            a = A.PTE_Rebalance(float(p["cap"]), tw, lookback=off(p["lookback"]), lag=off(p["lag"]), covar_method="standard", annualization_factor=float(p["af"]))
        random.seed(c.get("rseed", 1))
        ret = bool(a(s))
        if algo == "WeighSpecified":
            extra["template_intact"] = a.weights == orig
            w = s.temp["weights"]
            extra["is_copy"] = w is not a.weights
    except Exception as e:  # noqa: BLE001
        exc = type(e).__name__ + ":" + str(e)[:60]
    out = {"ret": ret, "hasw": "weights" in s.temp, "w": []}
    if out["hasw"]:
        try:
            out["w"] = [[idx[k], DEC(float(v))] for k, v in dict(s.temp["weights"]).items()]
        except Exception:  # noqa: BLE001
            out["w"] = [[99, [0, 1]]]
    cur = [DEC(float(s.children[n].weight)) if n in s.children else [0, 1] for n in names]
    tr = {"algo": algo, "K": K, "day": days, "now": now, "P": [[[v, 1] for v in row] for row in P], "sel": list(c["sel"] or []),
          "pre": {"hasw": c["prew"] is not None, "w": wseq(c["prew"] or {}, {k: k for k in range(1, K + 1)})},
          "cur": cur, "child": [n in s.children for n in names], "out": out, "exc": exc}
    q = {}
    for k_, v in p.items():
        if isinstance(v, Fraction):
            q[k_] = rr(v)
        elif k_ in ("w", "limits"):
            q[k_] = [[k, rr(x)] for k, x in v.items()]
        elif k_ == "tab":
            q[k_] = [[rr(x) for x in row] for row in v]
        elif k_ == "target":
            q[k_] = [rr(x) for x in v]
        else:
            q[k_] = v
    if algo == "WeighTarget":
        q["row"] = (p["tdays"].index(days[now - 1]) + 1) if days[now - 1] in p["tdays"] else 0
    q.update(extra)
    tr["p"] = q
    return tr


def run(prop, tier, replay=None):
    known_db = common.load_known()
    rep = common.Report(prop, tier)
    rng = random.Random(common.seed())
    n = 2000 if tier == "quick" else 40000
    cases = []
    for i in range(n):
        c = gen_case(rng, ALGOS[i % len(ALGOS)])
        c["rseed"] = rng.randint(0, 10**6)
        cases.append(c)
    if replay:
        import base64
        import pickle

        cases = [pickle.loads(base64.b64decode(json.load(open(replay))["case_pickle_b64"]))]
    traces = common.pool_map(run_case, cases, chunksize=32)
    for i, t in enumerate(traces):
        t["tid"] = i + 1
    try:
        verdicts, st = common.validate_parallel("Trace_BtWeigh", traces, batch=400)
    except tlcrun.TlcError as e:
        rep.machinery_errors.append(str(e)[:1500])
        return rep.finish(known_db)
    rep.add_tlc(st["generated"], st["distinct"], key="validation:Trace_BtWeigh", seconds=round(st["seconds"], 1), batches=st["batches"])
    rep.cov["traces_validated_against_impl"] = len(verdicts)
    counts, per_algo = {}, {}
    seen = set()
    for tid, v in sorted(verdicts.items()):
        counts[v["verdict"]] = counts.get(v["verdict"], 0) + 1
        algo = cases[tid - 1]["algo"]
        per_algo[algo] = per_algo.get(algo, 0) + 1
        if v["verdict"] == "FAIL":
            sig = (algo, tuple(v["clauses"]))
            if sig in seen and len(rep.violations) >= 6:
                continue
            seen.add(sig)
            rep.violation(sig, {"kind": "weigh", "case_pickle_b64": __import__("base64").b64encode(__import__("pickle").dumps(cases[tid - 1])).decode(), "trace": traces[tid - 1], "verdict": v}, "%s case %d: %s exc=%s" % (algo, tid, ",".join(v["clauses"]), traces[tid - 1]["exc"]))
    rep.extra["verdicts"] = counts
    rep.extra["cases_per_algo"] = per_algo
    rep.cov["states"] = max(rep.cov["states"], 1)
    rep.cov["transitions"] = max(rep.cov["transitions"], 1)
    rep.cov["samples"] = [traces[i] for i in (4, 8) if i < len(traces)]
    rep.extra["sources"] = __import__("btload").source_info()
    rep.assumptions = ["3 tickers x 7 dates, prices in {1,2,4,8} (dyadic returns keep the window statistics exact in 32-bit rationals)",
                       "risk relations judged with relative tolerance 1e-3; PTE decisions within 2% of the cap are not judged; WeighERC / WeighMeanVar and the Ledoit-Wolf variants are not judged here (numerical optimisers)"]
    return rep.finish(known_db)
