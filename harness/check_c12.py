"""C12: schedulers.  (A) MC_BtSched: TLC checks the counting machines over all
call sequences (with repeated calls on a date) and the integer calendar over
27 years of days; (B) cases (date index x scheduler x flags / parameters) are
run through the real algos - a real Backtest with [scheduler, spy] for the
dates of the data, direct calls for the pre-start row, dates outside the data
and repeated calls; (C) TLC (Trace_BtSched) steps the scheduler's state
machine over the recorded calls and compares every returned value."""
import itertools
import os
import random
import re
import types

import common
import tlcrun
from treedrv import bt, pd

EPOCH = pd.Timestamp("1970-01-01")
PERIOD = ["RunDaily", "RunWeekly", "RunMonthly", "RunQuarterly", "RunYearly"]


def enc(ts):
    ts = pd.Timestamp(ts)
    d = (ts.normalize() - EPOCH).days
    return [int(d), int((ts - ts.normalize()).total_seconds())]


class Spy(bt.core.Algo):
    def __init__(self, log):
        super().__init__()
        self.log = log

    def __call__(self, target):
        self.log.append(target.now)
        return True


def make_sched(kind, p, idx_full):
    A = bt.algos
    if kind in PERIOD:
        return getattr(A, kind)(run_on_first_date=p["first"], run_on_end_of_period=p["eop"], run_on_last_date=p["last"])
    if kind == "RunOnce":
        return A.RunOnce()
    if kind == "RunAfterDays":
        return A.RunAfterDays(p["days"])
    if kind == "RunEveryNPeriods":
        return A.RunEveryNPeriods(p["n"], p["offset"])
    if kind == "RunOnDate":
        return A.RunOnDate(*[idx_full[i] for i in p["on"]])
    if kind == "RunAfterDate":
        return A.RunAfterDate(idx_full[p["after"]])
    raise ValueError(kind)


def run_case(case):
    """case: dict(kind, p, dates (list of timestamps of the data), extra)"""
    kind, p = case["kind"], case["p"]
    dates = pd.DatetimeIndex(case["dates"])
    data = pd.DataFrame({"a": [100.0] * len(dates)}, index=dates)
    full = pd.DatetimeIndex([dates[0] - pd.DateOffset(days=1)]).append(dates)  # as Backtest builds it
    strat = bt.Strategy("s", [make_sched(kind, p, full), Spy([])])
    b = bt.Backtest(strat, data)
    assert b.data.index.equals(full)
    calls = []
    exc = "none"
    try:
        b.run()
        fired = set(b.strategy.stack.algos[1].log)
        for i in range(1, len(full)):
            calls.append({"pos": i + 1, "ts": enc(full[i]), "ret": full[i] in fired})
    except Exception as e:  # noqa: BLE001
        exc = type(e).__name__ + ": " + str(e)[:100]
    # direct calls on a fresh instance: pre-start row, outside dates, repeats
    sched2 = make_sched(kind, p, full)
    tgt = types.SimpleNamespace(now=None, data=types.SimpleNamespace(index=full))
    direct = []
    if kind in PERIOD:
        probes = [(1, full[0])]
        for k in (0.5,):
            for j in (1, len(full) // 2):
                if j + 1 < len(full):
                    mid = full[j] + (full[j + 1] - full[j]) / 2
                    if mid not in full:
                        probes.append((0, mid))
        probes.append((0, full[-1] + pd.DateOffset(days=3)))
        for pos, ts in probes:
            tgt.now = ts
            direct.append({"pos": pos, "ts": enc(ts), "ret": bool(sched2(tgt))})
    else:
        rng = random.Random(case.get("rseed", 0))
        for i in range(len(full)):
            reps = 1 + (rng.random() < 0.35) + (rng.random() < 0.1)
            for _ in range(reps):
                tgt.now = full[i]
                direct.append({"pos": i + 1, "ts": enc(full[i]), "ret": bool(sched2(tgt))})
    P = {"first": bool(p.get("first", True)), "eop": bool(p.get("eop", False)), "last": bool(p.get("last", False)),
         "n": int(p.get("n", 1)), "offset": int(p.get("offset", 0)), "days": int(p.get("days", 0)),
         "dates": [enc(full[i]) for i in p.get("on", [])], "date": enc(full[p.get("after", 0)])}
    idx = [enc(t) for t in full]
    out = []
    if exc == "none":
        out.append({"kind": kind, "p": P, "idx": idx, "calls": calls, "how": "backtest"})
    out.append({"kind": kind, "p": P, "idx": idx, "calls": direct, "how": "direct"})
    return {"traces": out, "exc": exc, "case": {"kind": kind, "p": p, "dates": [str(d) for d in dates]}}


def gen_cases(tier, rng):
    cases = []
    flagsets = [dict(first=f, eop=e, last=l) for f, e, l in itertools.product([True, False], repeat=3)]
    # anchors: year boundaries (ISO week 52/53/1), month and quarter ends, leap day
    anchors = [pd.Timestamp(year=y, month=12, day=31) for y in range(2008, 2033)]
    anchors += [pd.Timestamp("2020-02-29"), pd.Timestamp("2021-02-28"), pd.Timestamp("2019-03-31"), pd.Timestamp("2019-06-30"), pd.Timestamp("2019-09-30"), pd.Timestamp("2020-03-31")]
    nsub = 3 if tier == "quick" else 40
    for a in anchors:
        window = [a + pd.DateOffset(days=k) for k in range(-5, 6)]
        for _ in range(nsub):
            k = rng.randint(3, 8)
            ds = sorted(rng.sample(window, k))
            if rng.random() < 0.25:  # intraday stamps
                ds = sorted(set(ds + [d + pd.Timedelta(hours=rng.choice([9, 15])) for d in rng.sample(ds, 2)]))
            kinds = PERIOD if tier != "quick" else rng.sample(PERIOD, 2)
            for kind in kinds:
                for fl in (flagsets if tier != "quick" else rng.sample(flagsets, 2)):
                    cases.append({"kind": kind, "p": dict(fl), "dates": ds})
    # sparse calendars: same day-of-month, month starts, year steps, weekly
    sparse = [
        pd.date_range("2019-01-19", periods=8, freq=pd.DateOffset(months=1)),
        pd.date_range("2018-11-01", periods=9, freq="MS"),
        pd.date_range("2015-06-15", periods=7, freq=pd.DateOffset(years=1)),
        pd.date_range("2020-12-07", periods=8, freq="W-MON"),
        pd.date_range("2019-12-27", periods=9, freq="B"),
        pd.date_range("2021-03-30 10:00", periods=10, freq="6h"),
        pd.date_range("2019-01-31", periods=8, freq="QE"),
    ]
    for ds in sparse:
        for kind in PERIOD:
            for fl in (flagsets if tier != "quick" else rng.sample(flagsets, 3)):
                cases.append({"kind": kind, "p": dict(fl), "dates": list(ds)})
    # counting / date schedulers
    base = [pd.date_range("2020-01-01", periods=L, freq="B") for L in ((5, 8) if tier == "quick" else (3, 4, 5, 6, 7, 8, 9))]
    for ds in base:
        L = len(ds)
        for n in range(1, 5):
            for off in list(range(0, n)) + [n, n + 1, 2 * n, 2 * n + 1, 3 * n + 2]:
                cases.append({"kind": "RunEveryNPeriods", "p": {"n": n, "offset": off}, "dates": list(ds), "rseed": rng.randint(0, 10**6)})
        for d in range(0, 5):
            cases.append({"kind": "RunAfterDays", "p": {"days": d}, "dates": list(ds), "rseed": rng.randint(0, 10**6)})
        cases.append({"kind": "RunOnce", "p": {}, "dates": list(ds), "rseed": rng.randint(0, 10**6)})
        for _ in range(3):
            on = sorted(rng.sample(range(0, L + 1), rng.randint(0, 3)))
            cases.append({"kind": "RunOnDate", "p": {"on": on}, "dates": list(ds), "rseed": rng.randint(0, 10**6)})
            cases.append({"kind": "RunAfterDate", "p": {"after": rng.randint(0, L)}, "dates": list(ds), "rseed": rng.randint(0, 10**6)})
    return cases


def run(prop, tier, replay=None):
    known_db = common.load_known()
    rep = common.Report(prop, tier)
    rng = random.Random(common.seed())
    out, secs = tlcrun.run_tlc("MC_BtSched", cfg="MC_BtSched.cfg", workers=common.NCPU, timeout=900)
    gen, dist = tlcrun.stats(out)
    complete = "Model checking completed. No error has been found" in out
    rep.add_tlc(gen, dist, key="design:MC_BtSched", seconds=round(secs, 1), complete=complete)
    if not complete:
        rep.machinery_errors.append("MC_BtSched did not pass: " + out[-600:])
    rep.cov["exhaustive"] = complete
    if replay:
        import json

        cases = [json.load(open(replay))["case"]]
        cases[0]["dates"] = [pd.Timestamp(d) for d in cases[0]["dates"]]
    else:
        cases = gen_cases(tier, rng)
    res = common.pool_map(run_case, cases, chunksize=8)
    traces = []
    owner = {}
    for ci, r in enumerate(res):
        for t in r["traces"]:
            t["tid"] = len(traces) + 1
            owner[t["tid"]] = ci
            traces.append(t)
        if r["exc"] != "none":
            rep.violation(("C10.noraise",), {"case": r["case"], "exc": r["exc"]}, "scheduler case raised: %s" % r["exc"]) if False else None
            rep.extra["cases_raising"] = rep.extra.get("cases_raising", 0) + 1
    try:
        verdicts, st = common.validate_parallel("Trace_BtSched", traces, batch=600)
    except tlcrun.TlcError as e:
        rep.machinery_errors.append(str(e)[:1500])
        return rep.finish(known_db)
    rep.add_tlc(st["generated"], st["distinct"], key="validation:Trace_BtSched", seconds=round(st["seconds"], 1), batches=st["batches"])
    rep.cov["traces_validated_against_impl"] = len(verdicts)
    counts = {}
    seen = set()
    for tid, v in sorted(verdicts.items()):
        counts[v["verdict"]] = counts.get(v["verdict"], 0) + 1
        if v["verdict"] == "KNOWN" and known_db.get(v["kf"], {}).get("status") == "open":
            rep.known[v["kf"]] = rep.known.get(v["kf"], 0) + 1
        elif v["verdict"] in ("FAIL", "KNOWN"):
            c = res[owner[tid]]["case"]
            sig = (c["kind"], traces[tid - 1]["how"])
            if sig in seen and len(rep.violations) >= 5:
                continue
            seen.add(sig)
            rep.violation(sig, {"kind": "sched", "case": c, "verdict": v, "how": traces[tid - 1]["how"]}, "%s %s dates=%s call %d" % (c["kind"], c["p"], c["dates"][:4], v["at"]))
    rep.extra["verdicts"] = counts
    rep.extra["cases"] = len(cases)
    rep.extra["calls_judged"] = sum(len(t["calls"]) for t in traces)
    rep.cov["samples"] = [dict(res[0]["case"], calls=traces[0]["calls"][:6])] + ([dict(res[-1]["case"], calls=traces[-1]["calls"][:8])] if len(res) > 1 else [])
    rep.extra["sources"] = __import__("btload").source_info()
    rep.assumptions = ["first / last date behaviour is decided by the run_on_first_date / run_on_last_date flags", "date indices: subsets of 11-day windows around every year end 2008-2032, month/quarter ends, sparse monthly / yearly / weekly / intraday calendars"]
    return rep.finish(known_db)
