"""Conformance of the live objects' private state with the implementation-shaped
model BtImpl (spec/Trace_BtImpl.tla): generated histories on market-value trees,
internals snapshotted after every outermost call, every field compared by TLC."""
import random

import common
import treedrv
import treegen

KEYS = ("op", "node", "child", "a", "b", "flow", "upd", "date", "exc", "trades", "impl")


DEFAULTS = {"child": 1, "a": [0, 1], "b": [0, 1], "flow": True, "upd": True, "date": 0, "trades": []}


def slim(tr):
    evs = []
    for e in tr["events"]:
        if "impl" not in e:
            break
        x = {k: e.get(k, DEFAULTS.get(k)) for k in KEYS}
        x["settle"] = bool(e.get("driver_settled", False))
        evs.append(x)
    return {"tid": tr["tid"], "C": tr["C"], "events": evs}


def _run(args):
    seed, idx, kw = args
    rng = random.Random((seed * 7368787 + idx) & 0xFFFFFFFF)
    ckw = dict(tree=rng.choice(["F2", "F3", "N1", "S2", "N2"]), T=4)
    for k in ("comm", "spread", "integer", "crash", "late", "delist"):
        if k in kw:
            ckw[k] = kw[k]
    C = treegen.make_C(rng, **ckw)
    gkw = {k: v for k, v in kw.items() if k in treegen.GEN_KEYS}
    g = treegen.HistoryGen(rng, C, **gkw)
    tr = treedrv.run_online(C, g, tid=idx + 1, lazy=False, impl=True)
    return tr


def _run_prog(args):
    import btdrv
    import btgen

    seed, i, family = args
    prog = btgen.prog_by_family(seed, i, family)
    out = btdrv.run_program(prog, tid0=10 * i, seed=seed * 131 + i, lazy=False, impl=True)
    return [t for t in out["traces"] if t["label"] == "main"]


def stage_bt(rep, n, seed, families=("flat", "nested", "flows")):
    """The same conformance on whole backtests (children created up front)."""
    res = common.pool_map(_run_prog, [(seed + 17, i, list(families)) for i in range(n)], chunksize=2)
    traces = [t for r in res for t in r]
    slims = [s for s in (slim(t) for t in traces) if s["events"]]
    v, st = common.validate_parallel("Trace_BtImpl", slims, batch=25)
    rep.add_tlc(st["generated"], st["distinct"], key="conformance:Trace_BtImpl(backtests)", seconds=round(st["seconds"], 1), traces=len(slims))
    counts = {}
    drift = []
    for tid, x in sorted(v.items()):
        counts[x["verdict"]] = counts.get(x["verdict"], 0) + 1
        if x["verdict"] == "DRIFT" and len(drift) < 5:
            drift.append({"tid": tid, "event": x["at"], "fields": x["clauses"][:12]})
    rep.extra["impl_conformance_backtests"] = {"programs": n, "traces": len(slims), "events": sum(len(t["events"]) for t in slims), "verdicts": counts, "drift_samples": drift}
    rep.cov["traces_validated_against_impl"] += len(v)
    return traces, v


def stage(rep, n, seed, kw=None):
    """Adds the conformance result to the report; drift is reported in the
    evidence (and as a note on stdout), never as a violation by itself."""
    kw = dict(kw or dict(nops=14, p_redundant=0.3, p_unsettled=0.0, same_sec=True, p_custom=0.2))
    traces = [t for t in common.pool_map(_run, [(seed, i, kw) for i in range(n)]) if "setup_exc" not in t]
    slims = [slim(t) for t in traces]
    slims = [t for t in slims if t["events"]]
    v, st = common.validate_parallel("Trace_BtImpl", slims, batch=60)
    rep.add_tlc(st["generated"], st["distinct"], key="conformance:Trace_BtImpl", seconds=round(st["seconds"], 1), traces=len(slims))
    counts = {}
    drift = []
    for tid, x in sorted(v.items()):
        counts[x["verdict"]] = counts.get(x["verdict"], 0) + 1
        if x["verdict"] == "DRIFT" and len(drift) < 5:
            drift.append({"tid": tid, "event": x["at"], "fields": x["clauses"][:12]})
    rep.extra["impl_conformance"] = {"traces": len(slims), "events": sum(len(t["events"]) for t in slims), "verdicts": counts, "drift_samples": drift}
    rep.cov["traces_validated_against_impl"] += len(v)
    return traces, v
