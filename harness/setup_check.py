"""./check setup: parse every specification module and smoke-test the loader."""
import glob
import os
import subprocess
import sys

import tlcrun


def main():
    bad = 0
    for f in sorted(glob.glob(os.path.join(tlcrun.SPEC_DIR, "*.tla"))):
        p = subprocess.run(["java", "-cp", tlcrun._classpath(), "tla2sany.SANY", os.path.basename(f)], cwd=tlcrun.SPEC_DIR, capture_output=True, text=True)
        ok = p.returncode == 0 and "error" not in p.stdout.lower().replace("errors: 0", "")
        print("%-24s %s" % (os.path.basename(f), "ok" if ok else "PARSE ERROR"))
        if not ok:
            print(p.stdout[-1500:])
            bad += 1
    import btload

    bt = btload.load()
    print("bt.core from", bt.core.__file__, btload.source_info())
    return 1 if bad else 0


if __name__ == "__main__":
    sys.exit(main())
