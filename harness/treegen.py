"""Scenario generators for the tree-level checks: configurations C on the exact
lattice (integer ticks, small rationals) and operation histories.

Histories are generated *online*: the generator sees the last fresh
observation (taken on a clone) and picks amounts relative to it, so that the
histories exercise realistic magnitudes; all random choices come from the
seeded rng, so a (seed, index) pair reproduces a scenario exactly.
"""
import random
from fractions import Fraction

from num import NAN, rat

Z = [0, 1]

TREES = {
    # name: (kinds, parents(1-based), names)
    "F2": (["strat", "sec", "sec"], [1, 1, 1], ["r", "a", "b"]),
    "F3": (["strat", "sec", "sec", "sec"], [1, 1, 1, 1], ["r", "a", "b", "c"]),
    "N1": (["strat", "strat", "sec", "sec", "sec"], [1, 1, 2, 2, 1], ["r", "k", "a", "b", "c"]),
    "S2": (["strat", "strat", "sec", "strat", "sec", "sec"], [1, 1, 2, 1, 4, 4], ["r", "k1", "a", "k2", "a", "b"]),
    "N2": (["strat", "strat", "strat", "sec", "sec", "sec"], [1, 1, 2, 3, 3, 2], ["r", "k", "g", "a", "b", "c"]),
}

# fixed-income trees: the root is a FixedIncomeStrategy
FI_TREES = {
    "FI3": (["strat", "cpsec", "fisec", "hedge"], [1, 1, 1, 1], ["r", "a", "b", "h"]),
    "FI4": (["strat", "cpsec", "cpsec", "sec", "cphedge"], [1, 1, 1, 1, 1], ["r", "a", "b", "s", "h"]),
    "FIN": (["strat", "strat", "cpsec", "fisec", "cpsec"], [1, 1, 2, 2, 1], ["r", "k", "a", "b", "c"]),
}
TREES.update(FI_TREES)
# market-value strategies holding coupon-paying / hedge securities (carry is swept
# into a capital-weighted strategy's cash; it is performance, not a flow)
MC_TREES = {
    "MC3": (["strat", "cpsec", "sec"], [1, 1, 1], ["r", "a", "b"]),
    "MCN": (["strat", "strat", "cpsec", "sec", "cphedge"], [1, 1, 2, 2, 1], ["r", "k", "a", "b", "h"]),
}
TREES.update(MC_TREES)

COMMS = {
    "zero": {"k": "zero", "a": Z, "b": Z},
    "fix": {"k": "fix", "a": [1, 1], "b": Z},
    "unit": {"k": "unit", "a": [1, 4], "b": Z},
    "tier": {"k": "tier", "a": [2, 1], "b": [1, 4]},
    "prop": {"k": "prop", "a": [1, 100], "b": Z},
    "sell": {"k": "sell", "a": [1, 100], "b": Z},
    "buy": {"k": "buy", "a": [1, 100], "b": Z},
}


# outside the random choice (and outside C05's domain): a commission that can sink the
# portfolio through the very trades that open it
COMMS_X = {"gouge": {"k": "prop", "a": [3, 10], "b": Z}}


def rat_(x):
    f = Fraction(x)
    return [f.numerator, f.denominator]


def kids_of(par):
    N = len(par)
    kids = [[] for _ in range(N)]
    for i in range(1, N):
        kids[par[i] - 1].append(i + 1)
    return kids


def price_path(rng, T, kind="walk"):
    p = rng.choice([5, 8, 10, 20, 25, 40, 50])
    out = []
    for _ in range(T):
        out.append(p)
        step = rng.choice([-3, -2, -1, 0, 0, 1, 2, 3, 5])
        p = max(2, p + step)
    if kind == "late":
        k = rng.randint(1, max(1, T // 2))
        out = [None] * k + out[k:]
    return out


GEN_KEYS = ("nops", "capital", "p_defer", "p_redundant", "allow_illformed", "fund_subs", "p_unsettled", "p_flow", "p_custom", "same_sec", "leverage", "daytrade", "zero_outlay", "reopen", "giveaway", "brink")


def make_C(rng, tree=None, T=4, comm=None, spread=None, integer=True, mults=(1, 1, 1, 2, 5), late=False, D=50000, crash=False, bidoffer=None, delist=False, zerodip=False, penny=False, flatpx=False):
    tree = tree or rng.choice(list(TREES))
    kinds, par, names = TREES[tree]
    N = len(kinds)
    comm = comm or rng.choice(list(COMMS))
    if spread is None:
        spread = rng.choice([0, 0, 2, 2, 4])
    px_by_name = {}
    px, spr, zt = [], [], []
    for i in range(N):
        if kinds[i] == "strat":
            px.append([])
            spr.append([])
            zt.append([])
            continue
        nm = names[i]
        if nm not in px_by_name:
            path = price_path(rng, T, "late" if (late and rng.random() < 0.3) else "walk")
            if crash and rng.random() < 0.5:
                k = rng.randint(1, T - 1)
                path = path[:k] + [max(1, path[k] // rng.choice([4, 8, 10]))] + path[k + 1 :]
            if penny and rng.random() < 0.5:
                # a penny stock: proceeds of a small sale can equal the commission exactly
                path = [rng.choice([1, 1, 2, 2, 3, 4]) for _ in range(T)]
            if zerodip and rng.random() < 0.4 and T >= 3:
                # quoted at exactly zero for one or two dates, then quoted again
                k = rng.randint(1, T - 2)
                path = list(path)
                path[k] = 0
                if k + 2 < T or rng.random() < 0.5:
                    path[min(k + 1, T - 1)] = 0
            if delist and rng.random() < 0.5:
                # a delisting: the price prints 0 (maybe for several dates) and/or goes missing
                k = rng.randint(1, T - 1)
                tail = rng.choice([[None], [0], [0, None], [0, 0, None], [0, 0]])
                path = (path[:k] + tail + [tail[-1]] * T)[:T]
            sp = [rng.choice([0, spread]) for _ in range(T)] if spread else [0] * T
            # domain of C05: trading costs per unit stay well below the unit price
            sp = [s_ if (p_ is not None and 4 * s_ <= p_) else 0 for s_, p_ in zip(sp, path)]
            px_by_name[nm] = (path, sp)
        path, sp = px_by_name[nm]
        px.append([NAN if v is None else [v, 1] for v in path])
        spr.append([[v, 1] for v in sp])
        zt.append([Z] * T)
    strat_comm = []
    for i in range(N):
        if kinds[i] == "strat":
            strat_comm.append({**COMMS, **COMMS_X}[comm] if (i == 0 or rng.random() < 0.7) else COMMS[rng.choice(list(COMMS))])
        else:
            strat_comm.append(COMMS["zero"])
    # set_commissions pushes the parent's function to sub-strategies; the
    # driver sets functions top-down, so a child's own choice wins
    C = {
        "tree": tree,
        "N": N,
        "kind": kinds,
        "par": par,
        "kids": kids_of(par),
        "names": names,
        "mult": [[rng.choice(mults), 1] if kinds[i] != "strat" else [1, 1] for i in range(N)],
        "fi": [False] * N,
        "T": T,
        "px": px,
        "spread": spr,
        "coupon": zt,
        "costl": zt,
        "costs": zt,
        "comm": strat_comm,
        "integer": bool(integer),
        "bidoffer": bool(spread) if bidoffer is None else bool(bidoffer),
        "D": D,
        "DW": 200000,
        "paper": False,
    }
    if tree in FI_TREES or tree in MC_TREES:
        C["fi"] = [kinds[i] in ("cpsec", "cphedge") or (kinds[i] == "strat" and tree in FI_TREES) for i in range(N)]
        cpn, cl, cs = [], [], []
        for i in range(N):
            if kinds[i] in ("cpsec", "cphedge"):
                cpn.append([rat_(rng.choice([0, 0, "1/10", "1/4", "1/2", 1])) for _ in range(T)])
                mode = rng.choice(["both", "both", "long", "short", "none"])
                cl.append([rat_(rng.choice([0, "1/20", "1/10"])) if mode in ("both", "long") else NAN for _ in range(T)])
                cs.append([rat_(rng.choice([0, "1/20", "1/5"])) if mode in ("both", "short") else NAN for _ in range(T)])
            elif kinds[i] == "strat":
                cpn.append([]); cl.append([]); cs.append([])
            else:
                cpn.append([Z] * T); cl.append([NAN] * T); cs.append([NAN] * T)
        C["coupon"], C["costl"], C["costs"] = cpn, cl, cs
        # par-like prices for fixed-income instruments; a hedge (swap) may stand at zero
        for i in range(N):
            if kinds[i] != "strat" and (tree in FI_TREES or kinds[i] != "sec"):
                C["px"][i] = [[rng.choice([95, 98, 100, 100, 101, 104]), 1] for _ in range(T)]
                if zerodip and kinds[i] in ("hedge", "cphedge") and rng.random() < 0.6:
                    C["px"][i] = [[rng.choice([0, 0, 1, 2, 3]), 1] for _ in range(T)]
                C["spread"][i] = [Z] * T
        C["integer"] = bool(integer)
    if flatpx:
        # quotes that do not move: what changes the value between two dates is the carry alone
        for i in range(N):
            if kinds[i] != "strat":
                C["px"][i] = [C["px"][i][0]] * T
    # same ticker in several sub-strategies shares the multiplier too
    seen = {}
    for i in range(N):
        if kinds[i] != "strat":
            seen.setdefault(names[i], C["mult"][i])
            C["mult"][i] = seen[names[i]]
    return C


WEIGHTS = [Fraction(0), Fraction(1, 4), Fraction(1, 2), Fraction(1), Fraction(-1, 2), Fraction(1, 5), Fraction(3, 4), Fraction(3, 2), Fraction(1, 8)]


class HistoryGen:
    """Online generator of operation histories for one configuration."""

    def __init__(self, rng, C, nops=10, capital=None, p_defer=0.15, p_redundant=0.15, allow_illformed=False, fund_subs=True, p_unsettled=0.0, p_flow=0.23, p_custom=0.0, same_sec=False, leverage=False, daytrade=0.0, zero_outlay=0.0, reopen=0.0, giveaway=0.0, brink=0.0):
        self.rng = rng
        self.brink = brink
        self.giveaway = giveaway
        self.reopen = reopen
        self.daytrade = daytrade
        self.zero_outlay = zero_outlay
        self.C = C
        self.nops = nops
        self.capital = capital or rng.choice([1000, 1000, 2000, 5000])
        self.p_defer = p_defer
        self.p_redundant = p_redundant
        self.p_unsettled = p_unsettled
        self.p_flow = p_flow
        self.p_custom = p_custom if C["bidoffer"] else 0.0
        self.same_sec = same_sec
        self.leverage = leverage
        self.fav = None
        self.settled = True
        self.allow_illformed = allow_illformed
        self.t = 0
        self.queue = [
            {"op": "adjust", "node": 1, "a": [self.capital, 1], "flow": True, "upd": True},
            {"op": "update", "date": 1},
        ]
        self.t = 1
        self.count = 0
        self.N = C["N"]
        self.secs = [i + 1 for i in range(self.N) if C["kind"][i] != "strat"]
        self.strats = [i + 1 for i in range(self.N) if C["kind"][i] == "strat"]
        self.subs = [s for s in self.strats if s != 1]
        if fund_subs:
            for s in self.subs:
                if C["par"][s - 1] == 1:
                    self.queue.append({"op": "allocate", "node": s, "a": [self.capital // (2 * max(1, len(self.subs))), 1], "upd": True})
            for s in self.subs:
                if C["par"][s - 1] != 1:
                    self.queue.append({"op": "allocate", "node": s, "a": [self.capital // 8, 1], "upd": True})

    def usable(self, x, t=None):
        t = t or self.t
        p = self.C["px"][x - 1][t - 1]
        return p[1] != 0 and p[0] > 0

    def subtree_usable(self, n, t=None):
        return all(self.usable(x, t) for x in self.secs if self._in(x, n))

    def _in(self, x, n):
        while True:
            if x == n:
                return True
            if x == 1:
                return False
            x = self.C["par"][x - 1]

    def amount(self, last):
        rng = self.rng
        base = self.capital
        if last is not None and "val" in last:
            base = max(50.0, abs(last["val"][0]))
        frac_ = rng.choice([Fraction(1, 10), Fraction(1, 4), Fraction(1, 3), Fraction(1, 2), Fraction(1, 20)])
        a = int(base * frac_)
        a += rng.choice([0, 0, 1, 3, 7])
        if rng.random() < 0.3:
            a = -a
        return [a, 1]

    def next_op(self, rec):
        """rec: the Recorder (gives the last fresh raw observation)."""
        op = self._next_op(rec)
        if op is None:
            return None
        if op["op"] == "update" and op["date"] != self._cur and not self.settled and self._cur > 0:
            # like Backtest.run, settle the current date before moving on -
            # unless this history is meant to exercise a date change on
            # pending changes (known finding F10)
            if self.rng.random() >= self.p_unsettled:
                self.queue.insert(0, op)
                op = {"op": "update", "date": self._cur}
        if op["op"] not in ("update", "read", "flatten") and not op.get("upd", True) and not self.settled:
            # a deferred batch starts from a settled tree (as Rebalance does by
            # reading the value first); otherwise the lazily pending refresh
            # would fall somewhere inside the batch
            self.queue.insert(0, op)
            op = {"op": "update", "date": self._cur}
        k = op["op"]
        if k == "update":
            self._cur = op["date"]
            self.settled = True
        elif k == "read":
            self.settled = True
        elif k == "flatten":
            self.settled = False
        elif op.get("upd", True):
            self.settled = False
        return op

    _cur = 0

    def _next_op(self, rec):
        if self.queue:
            return self.queue.pop(0)
        if self.count >= self.nops:
            return None
        self.count += 1
        rng = self.rng
        C = self.C
        last = rec.prev_raw
        pos = last["pos"] if last else [0.0] * self.N
        r = rng.random()
        # date change (only onto dates where every open position has a price)
        if r < 0.22 and self.t < C["T"]:
            # (a held position may be quoted at zero; it may not go unquoted)
            ok = all(self.C["px"][x - 1][self.t][1] != 0 or pos[x - 1] == 0 for x in self.secs)
            if ok or self.allow_illformed:
                self.t += 1
                return {"op": "update", "date": self.t}
        if r < 0.22 + self.p_redundant:
            if rng.random() < 0.5:
                return {"op": "update", "date": self.t}
            return {"op": "read", "node": rng.choice(range(1, self.N + 1)), "prop": rng.choice(["value", "weight", "notional_value"])}
        if r < 0.22 + self.p_flow + self.p_redundant:
            a = self.amount(last)
            if rng.random() < 0.5:
                a = [rng.choice([100, -100, 250, -50, 500]), 1]
            return {"op": "adjust", "node": 1, "a": a, "flow": rng.random() < 0.6, "upd": True}
        defer = rng.random() < self.p_defer
        if defer:
            ops = [self.trade_op(last, upd=False) for _ in range(rng.randint(1, 3))]
            ops = [o for o in ops if o is not None]
            # a deferred batch touches each security's parent chain at most once
            seen, batch = set(), []
            for o in ops:
                key = o.get("child", o.get("node"))
                if key in seen or o["op"] in ("flatten",):
                    continue
                seen.add(key)
                batch.append(o)
            self.queue.extend(batch[1:])
            self.queue.append({"op": "update", "date": self.t})
            if batch:
                return batch[0]
            return self.queue.pop(0)
        o = self.trade_op(last, upd=True)
        return o if o is not None else {"op": "update", "date": self.t}

    def trade_op(self, last, upd=True):
        rng = self.rng
        C = self.C
        kind = rng.choice(["allocate", "allocate", "rebalance", "rebalance", "close", "transact", "flatten", "allocate_strat"])
        if C["fi"][0]:
            kind = rng.choice(["transact", "transact", "transact", "rebalance", "rebalance", "close", "flatten", "transact_strat"])
        if kind == "transact_strat":
            s_ = rng.choice(self.strats)
            if not self.subtree_usable(s_):
                return None
            return {"op": "transact", "node": s_, "a": [rng.choice([10, 50, -20, 100]), 1], "b": NAN, "upd": upd}
        if upd and self.brink and rng.random() < self.brink and last and "val" in last and self.t < C["T"]:
            # take the root to the brink: a withdrawal that leaves a value of a few ticks, so that
            # the carry swept at the next date decides on which side of zero the tree stands
            carry = [x for x in self.secs if C["kind"][x - 1] in ("cpsec", "cphedge") and C["par"][x - 1] == 1 and last["pos"][x - 1] != 0]
            v = last["val"][0]
            if carry and v == v and v > 20 and all(C["px"][x - 1][self.t][1] != 0 or last["pos"][x - 1] == 0 for x in self.secs):
                self.t += 1
                self.queue.insert(0, {"op": "update", "date": self.t})
                return {"op": "adjust", "node": 1, "a": [-int(v) + rng.choice([1, 3, 6, -2, 10]), 1], "flow": rng.random() < 0.5, "upd": True}
        if upd and self.giveaway and rng.random() < self.giveaway:
            # a trade that moves no cash at all: a bespoke price of exactly zero (needs bid/offer
            # accounting), or a security quoted at zero
            xs = [x for x in self.secs if (self.usable(x) and C["bidoffer"]) or C["px"][x - 1][self.t - 1] == [0, 1]]
            if xs:
                x = rng.choice(xs)
                cp = [0, 1] if (self.usable(x) and C["bidoffer"]) else NAN
                return {"op": "transact", "node": x, "a": [rng.choice([1, 2, 5, -1, -2]), 1], "b": cp, "upd": True}
        if upd and self.reopen and rng.random() < self.reopen:
            # close a holding, let the tree be refreshed more than once, trade it again
            held = [x for x in self.secs if self.usable(x) and last and last["pos"][x - 1] != 0]
            paying = [x for x in held if C["bidoffer"] and C["spread"][x - 1][self.t - 1][0] != 0]
            if held:
                x = rng.choice(paying or held)
                others = [y for y in self.secs if y != x and self.usable(y)]
                y = rng.choice(others) if (others and rng.random() < 0.7) else x   # then trade something (else)
                # (histories differ in whether the refreshes in between are there: C08)
                mid = [] if rng.random() < 0.5 else [{"op": "update", "date": self.t}, rng.choice([{"op": "update", "date": self.t}, {"op": "read", "node": 1, "prop": "value"}])]
                tail = mid + [{"op": "allocate", "node": y, "a": self.amount(last), "upd": True}, {"op": "update", "date": self.t}]
                self.queue[0:0] = tail
                return {"op": "close", "node": C["par"][x - 1], "child": x, "upd": True}
        if upd and self.daytrade and rng.random() < self.daytrade:
            # a round trip in one security within the date, no refresh between the legs
            xs = [x for x in self.secs if self.usable(x)]
            if xs:
                x = rng.choice(xs)
                q = rng.choice([1, 2, 5, 10, -1, -2, -5])
                cp = NAN
                if rng.random() < self.p_custom:
                    p = C["px"][x - 1][self.t - 1]
                    cp = [p[0] * 4 + rng.choice([-3, -1, 1, 2, 5]), 4] if rng.random() < 0.8 else [0, 1]  # (also: given away at zero)
                self.queue.insert(0, {"op": "transact", "node": x, "a": [-q, 1], "b": NAN, "upd": True})
                return {"op": "transact", "node": x, "a": [q, 1], "b": cp, "upd": True}
        if upd and self.zero_outlay and rng.random() < self.zero_outlay:
            # a sale whose proceeds equal the commission exactly: full outlay zero, fee not
            cands = []
            for x in self.secs:
                if not self.usable(x) or C["spread"][x - 1][self.t - 1][0] != 0:
                    continue
                pm = Fraction(*C["px"][x - 1][self.t - 1]) * Fraction(*C["mult"][x - 1])
                m = C["comm"][C["par"][x - 1] - 1]
                a_, b_ = Fraction(*m["a"]), Fraction(*m["b"])
                for q in (1, 2, 3, 4, 5, 8, 10):
                    fee = {"zero": Fraction(0), "fix": a_, "unit": a_ * q, "tier": max(a_, b_ * q), "prop": a_ * q * pm, "sell": a_ * q * pm, "buy": Fraction(0)}[m["k"]]
                    if fee != 0 and fee == q * pm:
                        cands.append((x, q))
            if cands:
                x, q = rng.choice(cands)
                return {"op": "transact", "node": x, "a": [-q, 1], "b": NAN, "upd": True}
        if self.leverage and rng.random() < 0.35:
            c = rng.choice(range(2, self.N + 1))
            if self.subtree_usable(c):
                w = rng.choice([Fraction(3, 2), Fraction(2), Fraction(-1), Fraction(-3, 2), Fraction(5, 2)])
                return {"op": "rebalance", "node": C["par"][c - 1], "child": c, "a": rat(w), "b": NAN, "upd": upd}
        if self.same_sec and self.fav is not None and rng.random() < 0.5 and self.usable(self.fav):
            x = self.fav
            if rng.random() < 0.5:
                return {"op": "allocate", "node": x, "a": self.amount(last), "upd": upd}
            q = rng.choice([1, 2, 5, 10, -1, -2, -5, -10])
            cp = NAN
            if rng.random() < self.p_custom:
                p = C["px"][x - 1][self.t - 1]
                cp = [p[0] * 4 + rng.choice([-3, -1, 1, 2, 5]), 4] if rng.random() < 0.8 else [0, 1]  # (also: given away at zero)
            return {"op": "transact", "node": x, "a": [q, 1], "b": cp, "upd": upd}
        if kind == "allocate":
            x = rng.choice(self.secs)
            self.fav = x
            if not self.usable(x):
                return None
            return {"op": "allocate", "node": x, "a": self.amount(last), "upd": upd}
        if kind == "allocate_strat":
            if not self.subs:
                return None
            s = rng.choice(self.subs)
            if not self.subtree_usable(s):
                return None
            return {"op": "allocate", "node": s, "a": self.amount(last), "upd": upd}
        if kind == "rebalance":
            c = rng.choice(range(2, self.N + 1))
            if not self.subtree_usable(c):
                return None
            w = rng.choice(WEIGHTS)
            base = NAN
            if C["fi"][0] and rng.random() < 0.6:
                base = [rng.choice([100, 200, 500, 1000]), 1]  # the notional set by SetNotional
            return {"op": "rebalance", "node": C["par"][c - 1], "child": c, "a": rat(w), "b": base, "upd": upd}
        if kind == "close":
            c = rng.choice(range(2, self.N + 1))
            if not self.subtree_usable(c):
                return None
            return {"op": "close", "node": C["par"][c - 1], "child": c, "upd": upd}
        if kind == "transact":
            x = rng.choice(self.secs)
            quoted0 = C["px"][x - 1][self.t - 1] == [0, 1]
            if not self.usable(x) and not quoted0:
                return None
            q = rng.choice([1, 2, 5, 10, -1, -3, -10, 25])
            cp = NAN
            if rng.random() < self.p_custom:
                p = C["px"][x - 1][self.t - 1]
                cp = [p[0] * 4 + rng.choice([-3, -1, 1, 2, 5]), 4] if rng.random() < 0.8 else [0, 1]  # (also: given away at zero)
            self.fav = x
            return {"op": "transact", "node": x, "a": [q, 1], "b": cp, "upd": upd}
        if kind == "flatten":
            s = rng.choice(self.strats)
            if not self.subtree_usable(s) or not upd:
                return None
            return {"op": "flatten", "node": s}
        return None


def scenario_stream(seed, n, **kw):
    """Yields (index, rng, C, HistoryGen) for n scenarios from one seed."""
    for i in range(n):
        rng = random.Random((seed * 1000003 + i) & 0xFFFFFFFF)
        ckw = {k: v for k, v in kw.items() if k in ("tree", "T", "comm", "spread", "integer", "late", "crash", "D")}
        gkw = {k: v for k, v in kw.items() if k in GEN_KEYS}
        if "trees" in kw:
            ckw["tree"] = rng.choice(kw["trees"])
        C = make_C(rng, **ckw)
        yield i, rng, C, HistoryGen(rng, C, **gkw)
